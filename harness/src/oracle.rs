//! Implementation-side oracles: each evaluates the property's own predicate on the real code's
//! output against an independent reference.  Never counted as proof — they turn a broken
//! obligation or a model disagreement into a concrete failing input.
use crate::enc::*;
use crate::run::*;
use crate::show::*;
use elf::endian::{AnyEndian, BigEndian, EndianParse, LittleEndian, NativeEndian};
use elf::file::Class;
use elf::parse::{ParseAt, ParsingTable};
use elf::string_table::StringTable;
use elf::ParseError;

type V = Result<(), String>;

fn nat(s: &str) -> usize {
    s.parse::<usize>().unwrap_or(0)
}

fn ann_get<'a>(ann: &'a str, key: &str) -> Option<&'a str> {
    // annotations are `key=value` separated by '|'
    for part in ann.split('|') {
        if let Some(v) = part.strip_prefix(key) {
            if let Some(v) = v.strip_prefix('=') {
                return Some(v);
            }
        }
    }
    None
}

fn ty_info(ty: &str) -> (usize, bool) {
    match ty {
        "u8" => (1, false),
        "u16" => (2, false),
        "u32" => (4, false),
        "u64" => (8, false),
        "i32" => (4, true),
        _ => (8, true),
    }
}

/// C04: exact value, exact advance, untouched cursor on failure, all five specs agree.
fn oracle_int(le: bool, ty: &str, off: usize, data: &[u8]) -> V {
    let (w, signed) = ty_info(ty);
    let fits = off.checked_add(w).map_or(false, |e| e <= data.len());
    let expect = if fits {
        let raw = get(&data[off..off + w], le, w);
        let txt = if signed {
            let bits = 8 * w as u32;
            let v = if bits == 64 { raw as i64 } else if raw >> (bits - 1) & 1 == 1 { (raw | (!0u64 << bits)) as i64 } else { raw as i64 };
            v.to_string()
        } else {
            raw.to_string()
        };
        format!("ok {} {}", txt, off + w)
    } else if off.checked_add(w).is_none() {
        format!("err IntegerOverflow {}", off)
    } else {
        format!("err SliceReadError({},{}) {}", off, off + w, off)
    };
    // the property speaks of "an error" with the offset untouched, not of which error: compare `err … <cursor>` up to the kind
    let same = |got: &str, want: &str| -> bool {
        if got == want { return true; }
        if got.starts_with("err ") && want.starts_with("err ") {
            return got.rsplit(' ').next() == want.rsplit(' ').next();
        }
        false
    };
    let got_any = run_int(any_endian(le), ty, off, data);
    if !same(&got_any, &expect) {
        return Err(format!("AnyEndian: got `{}` expected `{}`", got_any, expect));
    }
    let got_fixed = if le { run_int(LittleEndian, ty, off, data) } else { run_int(BigEndian, ty, off, data) };
    if !same(&got_fixed, &expect) {
        return Err(format!("fixed spec: got `{}` expected `{}`", got_fixed, expect));
    }
    // native spec must behave as the build target's order
    let native_le = cfg!(target_endian = "little");
    if native_le == le {
        let got_native = run_int(NativeEndian, ty, off, data);
        if !same(&got_native, &expect) {
            return Err(format!("NativeEndian: got `{}` expected `{}`", got_native, expect));
        }
    }
    if NativeEndian.is_little() != native_le {
        return Err("NativeEndian does not match the build target".into());
    }
    Ok(())
}

/// C02: the ABI encoding of known field values must decode to exactly those values.
fn oracle_parse(tn: &str, le: bool, c: Class, off: usize, data: &[u8], ann: &str) -> V {
    let got = run_parse(any_endian(le), tn, c, off, data);
    match ann_get(ann, "expect") {
        Some("err") => {
            if got.starts_with("err ") {
                // failing parses must never move the cursor past the data
                Ok(())
            } else {
                Err(format!("expected an error, got `{}`", got))
            }
        }
        Some(e) => {
            if got == e {
                // size_for must equal the ABI size
                Ok(())
            } else {
                Err(format!("got `{}` expected `{}`", got, e))
            }
        }
        None => Ok(()),
    }
}

fn table_coherent<E: EndianParse, P: ParseAt + Show>(e: E, c: Class, data: &[u8], abi_sz: usize) -> V {
    let t: ParsingTable<'_, E, P> = ParsingTable::new(e, c, data);
    if P::size_for(c) != abi_sz {
        return Err(format!("size_for = {} but ABI size = {}", P::size_for(c), abi_sz));
    }
    let whole = data.len() / abi_sz;
    if t.len() != whole {
        return Err(format!("len() = {} but whole entries = {}", t.len(), whole));
    }
    if t.is_empty() != (whole == 0) {
        return Err("is_empty() != (len()==0)".into());
    }
    // reference: decode each chunk stand-alone
    let mut reference: Vec<Option<String>> = vec![];
    for i in 0..whole {
        let chunk = &data[i * abi_sz..(i + 1) * abi_sz];
        let mut o = 0usize;
        reference.push(P::parse_at(e, c, &mut o, chunk).ok().map(|v| v.show()));
    }
    for i in 0..whole + 3 {
        let g = t.get(i);
        if i < whole {
            match (&g, &reference[i]) {
                (Ok(v), Some(r)) if &v.show() == r => {}
                (Err(_), None) => {} // entries with a rejected version word
                _ => return Err(format!("get({}) disagrees with stand-alone decode of chunk {}", i, i)),
            }
        } else if g.is_ok() {
            return Err(format!("get({}) succeeded but len() = {}", i, whole));
        }
    }
    for i in [usize::MAX, usize::MAX / abi_sz, usize::MAX / abi_sz + 1, 1usize << 62, (1usize << 63) / abi_sz + 1] {
        if i >= whole && t.get(i).is_ok() {
            return Err(format!("get({}) succeeded but len() = {}", i, whole));
        }
    }
    // iteration = gets, in order, up to the first entry that fails to parse
    let items: Vec<String> = t.iter().map(|v| v.show()).collect();
    let mut expect_items = vec![];
    for r in &reference {
        match r {
            Some(s) => expect_items.push(s.clone()),
            None => break,
        }
    }
    if items != expect_items {
        return Err(format!("iteration yields {} items, reference {} (or contents differ)", items.len(), expect_items.len()));
    }
    // the Iterator trait's provided methods agree with plain `next()` (an override of nth / count / last / size_hint
    // must be the same function): resumed `nth`, `skip`, `step_by`, `count`, `last`, `size_hint`
    iter_methods_check("table iterator", || t.iter(), |v| v.show())?;
    let n = items.len();
    for a in 0..n.min(4) + 1 {
        for k in 0..n.min(4) + 2 {
            let mut it = t.iter();
            for _ in 0..a { it.next(); }
            let got = it.nth(k).map(|v| v.show());
            let want = items.get(a + k).cloned();
            if got != want {
                return Err(format!("after {} next() calls, nth({}) is not item {} of the iteration", a, k, a + k));
            }
            let after = it.next().map(|v| v.show());
            if want.is_some() && after != items.get(a + k + 1).cloned() {
                return Err(format!("after {} next() calls and nth({}), next() is not item {}", a, k, a + k + 1));
            }
        }
    }
    for (a, b) in [(0usize, 2usize), (1, 2), (1, 1), (2, 3)] {
        let mut it = t.iter();
        if a > 0 { it.next(); }
        let got: Vec<String> = it.skip(a.saturating_sub(1)).step_by(b).take(n + 2).map(|v| v.show()).collect();
        let want: Vec<String> = items.iter().skip(if a > 0 { 1 + a - 1 } else { 0 }).step_by(b).cloned().collect();
        if got != want {
            return Err(format!("next(){}.skip().step_by({}) differs from the same walk over the collected items", if a > 0 { " then" } else { " not called," }, b));
        }
    }
    if t.iter().count() != n {
        return Err(format!("count() = {} but next() yields {} items", t.iter().count(), n));
    }
    if t.iter().last().map(|v| v.show()) != items.last().cloned() {
        return Err("last() is not the last item next() yields".into());
    }
    let (lo, hi) = t.iter().size_hint();
    if lo > n || hi.map(|h| h < n).unwrap_or(false) {
        return Err(format!("size_hint() = ({}, {:?}) excludes the {} items next() yields", lo, hi, n));
    }
    // fused
    let mut it = t.iter();
    while it.next().is_some() {}
    for _ in 0..3 {
        if it.next().is_some() {
            return Err("iterator yielded an item after returning None".into());
        }
    }
    // repeated access
    for i in 0..whole {
        let a = t.get(i).ok().map(|v| v.show());
        let b = t.get(i).ok().map(|v| v.show());
        if a != b {
            return Err("repeated get differs".into());
        }
    }
    Ok(())
}

macro_rules! by_type_v {
    ($tn:expr, $f:ident, $e:expr, $($args:expr),*) => {
        match $tn {
            "SectionHeader" => $f::<_, elf::section::SectionHeader>($e, $($args),*),
            "ProgramHeader" => $f::<_, elf::segment::ProgramHeader>($e, $($args),*),
            "Symbol" => $f::<_, elf::symbol::Symbol>($e, $($args),*),
            "Rel" => $f::<_, elf::relocation::Rel>($e, $($args),*),
            "Rela" => $f::<_, elf::relocation::Rela>($e, $($args),*),
            "Dyn" => $f::<_, elf::dynamic::Dyn>($e, $($args),*),
            "CompressionHeader" => $f::<_, elf::compression::CompressionHeader>($e, $($args),*),
            "NoteGnuAbiTag" => $f::<_, elf::note::NoteGnuAbiTag>($e, $($args),*),
            "SysVHashHeader" => $f::<_, elf::hash::SysVHashHeader>($e, $($args),*),
            "GnuHashHeader" => $f::<_, elf::hash::GnuHashHeader>($e, $($args),*),
            "VersionIndex" => $f::<_, elf::gnu_symver::VersionIndex>($e, $($args),*),
            "VerDef" => $f::<_, elf::gnu_symver::VerDef>($e, $($args),*),
            "VerDefAux" => $f::<_, elf::gnu_symver::VerDefAux>($e, $($args),*),
            "VerNeed" => $f::<_, elf::gnu_symver::VerNeed>($e, $($args),*),
            "VerNeedAux" => $f::<_, elf::gnu_symver::VerNeedAux>($e, $($args),*),
            "u32" => $f::<_, u32>($e, $($args),*),
            "u64" => $f::<_, u64>($e, $($args),*),
            _ => Ok(()),
        }
    };
}

fn oracle_table(tn: &str, le: bool, c: Class, data: &[u8]) -> V {
    let abi_sz = abi_size(tn, c == Class::ELF64);
    by_type_v!(tn, table_coherent, any_endian(le), c, data, abi_sz)
}

/// C15: naive scan + core::str::from_utf8
fn oracle_strtab(off: usize, data: &[u8]) -> V {
    let t = StringTable::new(data);
    let raw = t.get_raw(off);
    let expect: Result<&[u8], &str> = if data.is_empty() || off > data.len() {
        Err("BadOffset")
    } else {
        let mut k = off;
        while k < data.len() && data[k] != 0 {
            k += 1;
        }
        if k < data.len() {
            Ok(&data[off..k])
        } else {
            Err("StringTableMissingNul")
        }
    };
    match (&raw, &expect) {
        (Ok(g), Ok(e)) => {
            if g != e {
                return Err("get_raw returned different bytes than the NUL-terminated run".into());
            }
            if !e.is_empty() && g.as_ptr() != e.as_ptr() {
                return Err("get_raw result does not borrow from the table at `off`".into());
            }
        }
        (Err(ParseError::BadOffset(o)), Err("BadOffset")) if *o == off as u64 => {}
        (Err(ParseError::StringTableMissingNul(o)), Err("StringTableMissingNul")) if *o == off as u64 => {}
        _ => return Err(format!("get_raw: got {} expected {:?}", show_res(&raw, |s| hex(s)), expect.map(hex))),
    }
    let s = t.get(off);
    match (&s, &expect) {
        (Ok(g), Ok(e)) => {
            if std::str::from_utf8(e).ok() != Some(*g) {
                return Err("get returned a different str than from_utf8(get_raw)".into());
            }
        }
        (Err(ParseError::Utf8Error(_)), Ok(e)) => {
            if std::str::from_utf8(e).is_ok() {
                return Err("get rejected valid UTF-8".into());
            }
        }
        (Err(_), Err(_)) => {}
        _ => return Err("get and get_raw disagree on success".into()),
    }
    Ok(())
}

/// C10: reference truth tables for ident parsing
pub fn ident_expect(spec: &str, d: &[u8]) -> String {
    if d.len() < 16 {
        return "err SliceReadError(0,16)".into();
    }
    if d[0..4] != [0x7f, b'E', b'L', b'F'] {
        return format!("err BadMagic({},{},{},{})", d[0], d[1], d[2], d[3]);
    }
    if d[6] != 1 {
        return format!("err UnsupportedVersion({},1)", d[6]);
    }
    let cls = match d[4] {
        1 => "32",
        2 => "64",
        v => return format!("err UnsupportedElfClass({})", v),
    };
    let native_le = cfg!(target_endian = "little");
    let accept = |v: u8| -> Option<bool> {
        match (spec, v) {
            ("little", 1) => Some(true),
            ("big", 2) => Some(false),
            ("any", 1) => Some(true),
            ("any", 2) => Some(false),
            ("native", 1) if native_le => Some(true),
            ("native", 2) if !native_le => Some(false),
            _ => None,
        }
    };
    match accept(d[5]) {
        Some(le) => format!("ok {},{},{},{}", show_bool(le), cls, d[7], d[8]),
        None => format!("err UnsupportedElfEndianness({})", d[5]),
    }
}

fn oracle_ident(line: &str, spec: &str, d: &[u8]) -> V {
    let got = run_line(line);
    let e = ident_expect(spec, d);
    // a buffer shorter than the identification: the property names no error kind for it
    if got == e || (d.len() < 16 && got.starts_with("err ")) {
        Ok(())
    } else {
        Err(format!("got `{}` expected `{}`", got, e))
    }
}

fn oracle_eidata(line: &str, spec: &str, v: u8) -> V {
    let mut id = crate::gen::good_ident(true, true);
    id[5] = v;
    let e = ident_expect(spec, &id);
    let got = run_line(line);
    // the two order predicates of a spec value are complementary, for the run-time spec as for the compile-time ones
    let flags = crate::run::eidata_flags_spec(spec, v);
    if flags != "-" && flags != "10" && flags != "01" {
        return Err(format!("C04: the {} spec value for EI_DATA={} answers is_little()={} and is_big()={}", spec, v, &flags[..1], &flags[1..]));
    }
    let want = if e.starts_with("ok ") { format!("ok {}", &e[3..4]) } else { e };
    if got == want {
        Ok(())
    } else {
        Err(format!("got `{}` expected `{}`", got, want))
    }
}

fn oracle_hashfn(kind: &str, name: &[u8]) -> V {
    let (got, want) = match kind {
        "sysv" => (elf::hash::sysv_hash(name), ref_sysv_hash(name)),
        _ => (elf::hash::gnu_hash(name), ref_gnu_hash(name)),
    };
    if got == want {
        Ok(())
    } else {
        Err(format!("{}_hash = {:#x}, reference {:#x}", kind, got, want))
    }
}

/// all failures of all oracles for one line (each tagged with the property whose predicate failed)
pub fn oracle_all(line: &str, ann: &str) -> Vec<String> {
    let mut out = vec![];
    if let Err(e) = oracle_line(line, ann) {
        out.push(e);
    }
    if let Err(e) = crate::oracle2::oracle_alloc(line) {
        out.push(e);
    }
    out
}

pub fn oracle_line(line: &str, ann: &str) -> V {
    let t: Vec<&str> = line.trim().split(' ').collect();
    match t.as_slice() {
        ["int", le, ty, off, hexd] => oracle_int(*le == "1", ty, nat(off), &unhex(hexd)),
        ["parse", tn, le, cls, off, hexd] => oracle_parse(tn, *le == "1", class_of(cls), nat(off), &unhex(hexd), ann),
        ["ehdr", _sp, _hexd] => {
            // C02: the file header decodes to exactly the values its ABI encoding holds
            match ann.strip_prefix("expect=") {
                Some(want) => {
                    let got = crate::run::run_line(line);
                    if got == want { Ok(()) } else { Err(format!("C02: file header: got `{}` expected `{}`", got, want)) }
                }
                None => Ok(()),
            }
        }
        ["table", tn, le, cls, _ops, hexd] => oracle_table(tn, *le == "1", class_of(cls), &unhex(hexd)),
        ["strtab", off, hexd] => oracle_strtab(nat(off), &unhex(hexd)),
        ["utf8", _] => Ok(()), // the implementation side *is* core::str::from_utf8
        ["acc", "versym", v] => {
            // ABI: VERSYM_VERSION 0x7fff, VERSYM_HIDDEN 0x8000, VER_NDX_LOCAL 0, VER_NDX_GLOBAL 1
            let v = nat(v) as u16;
            let idx = v % 0x8000;
            let want = format!("{},{},{},{}", idx, show_bool(idx == 0), show_bool(idx == 1), show_bool(v >= 0x8000));
            let got = run_line(line);
            if got == want { Ok(()) } else { Err(format!("got `{}` expected `{}`", got, want)) }
        }
        ["acc", "sym", info, other, shndx] => {
            // ELF_ST_BIND(i) = i>>4, ELF_ST_TYPE(i) = i&0xf, ELF_ST_VISIBILITY(o) = o&3, undefined iff shndx == SHN_UNDEF
            let (i, o, x) = (nat(info), nat(other), nat(shndx));
            let want = format!("{},{},{},{}", show_bool(x == 0), i % 16, i / 16, o % 4);
            let got = run_line(line);
            if got == want { Ok(()) } else { Err(format!("got `{}` expected `{}`", got, want)) }
        }
        ["acc", "symf", _name, shndx, info, other, _value, _size] => {
            let (i, o, x) = (nat(info), nat(other), nat(shndx));
            let want = format!("{},{},{},{}", show_bool(x == 0), i % 16, i / 16, o % 4);
            let got = run_line(line);
            if got == want { Ok(()) } else { Err(format!("C02: Symbol accessors (is_undefined,type,bind,visibility) gave `{}`, the ABI macros give `{}`", got, want)) }
        }
        ["ident", sp, hexd] => oracle_ident(line, sp, &unhex(hexd)),
        ["eidata", sp, v] => oracle_eidata(line, sp, nat(v) as u8),
        ["hashfn", kind, hexd] => oracle_hashfn(kind, &unhex(hexd)),
        _ => crate::oracle2::oracle_line2(line, ann),
    }
}

/// The `Iterator` trait's provided methods must be the functions `next()` defines — an override of `nth`, `count`,
/// `last`, `fold`, `size_hint`, … (or a cursor shared between them) has to agree with plain iteration, from a fresh
/// iterator **and after part of it was consumed**.  `mk` builds a fresh iterator, `show` renders an item.
pub fn iter_methods_check<I: Iterator, F: Fn() -> I, S: Fn(&I::Item) -> String>(what: &str, mk: F, show: S) -> V {
    let cap = 4096usize;
    // no sequence of provided-method calls panics — in particular not after an `nth` that runs past the end
    {
        let n0 = { let mut it = mk(); let mut c = 0usize; while it.next().is_some() { c += 1; if c > cap { break; } } c };
        for k in [0usize, 1, n0, n0 + 1, n0 + 7, usize::MAX / 2, usize::MAX] {
            let r = std::panic::catch_unwind(std::panic::AssertUnwindSafe(|| {
                let mut it = mk();
                let _ = it.nth(k);
                let _ = it.size_hint();
                let _ = it.nth(0);
                let _ = it.size_hint();
                let _ = it.count();
            }));
            if r.is_err() {
                return Err(format!("C01: {}: nth({}) followed by size_hint()/nth(0)/count() panicked", what, k));
            }
        }
    }
    let items: Vec<String> = { let mut it = mk(); let mut v = vec![]; while let Some(x) = it.next() { v.push(show(&x)); if v.len() > cap { break; } } v };
    if items.len() > cap { return Ok(()); }
    let n = items.len();
    for a in 0..n.min(3) + 1 {
        for k in 0..n.min(4) + 2 {
            let mut it = mk();
            for _ in 0..a { it.next(); }
            let got = it.nth(k).map(|v| show(&v));
            let want = items.get(a + k).cloned();
            if got != want {
                let more = if got.is_some() && want.is_none() { " || FAIL C16: nth() yields an item where plain iteration has ended" } else { "" };
                return Err(format!("{}: after {} next() calls, nth({}) is not item {} of the iteration{}", what, a, k, a + k, more));
            }
            let after = it.next().map(|v| show(&v));
            if want.is_some() && a + k + 1 < n && after != items.get(a + k + 1).cloned() {
                return Err(format!("{}: after {} next() calls and nth({}), next() is not item {}", what, a, k, a + k + 1));
            }
        }
        // consumers built on fold / try_fold, after `a` items were taken with next()
        let rest = n - a.min(n);
        let mut it = mk(); for _ in 0..a { it.next(); }
        if it.count() != rest { return Err(format!("{}: after {} next() calls, count() is not the number of remaining items ({})", what, a, rest)); }
        let mut it = mk(); for _ in 0..a { it.next(); }
        if it.fold(0usize, |c, _| c + 1) != rest { return Err(format!("{}: after {} next() calls, fold() does not visit the {} remaining items", what, a, rest)); }
        let mut it = mk(); for _ in 0..a { it.next(); }
        let mut seen = vec![]; it.for_each(|x| seen.push(show(&x)));
        if seen[..] != items[a.min(n)..] { return Err(format!("{}: after {} next() calls, for_each() does not visit the remaining items in order", what, a)); }
        let mut it = mk(); for _ in 0..a { it.next(); }
        if it.last().map(|v| show(&v)) != (if a < n { items.last().cloned() } else { None }) { return Err(format!("{}: after {} next() calls, last() is not the last remaining item", what, a)); }
        let mut it = mk(); for _ in 0..a { it.next(); }
        let (lo, hi) = it.size_hint();
        if lo > rest || hi.map(|h| h < rest).unwrap_or(false) { return Err(format!("{}: after {} next() calls, size_hint() = ({}, {:?}) excludes the {} remaining items", what, a, lo, hi, rest)); }
        let mut it = mk(); for _ in 0..a { it.next(); }
        let sk: Vec<String> = it.skip(1).step_by(2).take(n + 2).map(|v| show(&v)).collect();
        let want: Vec<String> = items.iter().skip(a.min(n) + 1).step_by(2).cloned().collect();
        if sk != want {
            let more = if sk.len() > want.len() { " || FAIL C16: the walk yields more items than plain iteration has (it does not end where the iterator ends)" } else { "" };
            return Err(format!("{}: after {} next() calls, skip(1).step_by(2) differs from the same walk over the collected items{}", what, a, more));
        }
        // (an iterator need not be fused — NoteIterator is not — so nothing here polls again after the first None)
        if a >= n { continue; }
        let mut it = mk(); for _ in 0..a { it.next(); }
        let tk: Vec<String> = it.by_ref().take(1).map(|v| show(&v)).collect();
        let after: Vec<String> = it.map(|v| show(&v)).collect();
        let mut joined = tk; joined.extend(after);
        if joined[..] != items[a.min(n)..] { return Err(format!("{}: by_ref().take(1) then the rest differs from plain iteration (after {} next() calls)", what, a)); }
    }
    Ok(())
}

#[allow(dead_code)]
fn _unused(_: AnyEndian) {}
