//! Everything the translator extracts from the *source*, printed from the *compiled* crate, plus
//! the implementation-side oracle for C19's to_str clause.
use crate::generated::*;
use crate::prng::Rng;

const SYMBOLIC: [&str; 10] = [
    "e_osabi_to_str", "e_type_to_str", "e_machine_to_str", "sh_type_to_str", "p_type_to_str",
    "st_symtype_to_str", "st_bind_to_str", "st_vis_to_str", "ch_type_to_str", "d_tag_to_str",
];

fn domain(argty: &str, rng: &mut Rng, thorough: bool) -> Vec<i128> {
    let mut v: Vec<i128> = vec![];
    match argty {
        "u8" => v.extend(0..=255),
        "u16" => v.extend(0..=65535),
        _ => {
            // all constant values, their neighbours, and random values
            let width: u32 = if argty == "i64" || argty == "u64" { 64 } else { 32 };
            for (_, c) in ABI_CONSTS {
                v.push(*c);
                v.push(*c + 1);
                v.push(*c - 1);
                // every value at Hamming distance one, and (for values in the argument's range) two, from a constant:
                // a membership test written as a mask (`x & C == C`), a dropped or a stuck bit
                if *c >= 0 && (*c as u128) < (1u128 << width) {
                    for i in 0..width {
                        let a = *c ^ (1i128 << i);
                        v.push(a);
                        if thorough || *c >= 65536 {
                            for j in (i + 1)..width {
                                v.push(a ^ (1i128 << j));
                            }
                        }
                    }
                }
            }
            let lim: i128 = if argty == "i64" { i64::MAX as i128 } else { (1i128 << width) - 1 };
            v.retain(|x| *x <= lim && (*x >= 0 || argty == "i64"));
            for _ in 0..(if thorough { 200000 } else { 20000 }) {
                v.push(rng.interesting() as i128);
                v.push((rng.next() as u32) as i128);
            }
            if argty == "i64" {
                v.extend([-1i128, i64::MIN as i128, i64::MAX as i128]);
            }
        }
    }
    v.sort();
    v.dedup();
    v
}

pub fn dump(seed: u64, thorough: bool) {
    let mut rng = Rng::new(seed);
    for (n, v) in ABI_CONSTS {
        println!("const {} {}", n, v);
    }
    for (name, size, fields) in cstructs() {
        let fs: Vec<String> = fields.iter().map(|(f, o)| format!("{}:{}", f, o)).collect();
        println!("struct {} {} {}", name, size, fs.join(","));
        if NOT_REPR_C.contains(&name) {
            println!("FAIL C19: {} is declared without #[repr(C)]: its field offsets are unspecified (as compiled: size={} {})", name, size, fs.join(","));
        }
    }
    let mut evaluated = 0u64;
    for (f, argty) in TO_STR_FUNCS {
        let is_string = f.ends_with("_to_string");
        for v in domain(argty, &mut rng, thorough) {
            evaluated += 1;
            if is_string {
                if let Some(s) = call_to_string(f, v) {
                    // fallback must contain the number (hex without prefix, or decimal)
                    let delegate = f.replace("_to_string", "_to_str");
                    let named = call_to_str(&delegate, v).flatten();
                    match named {
                        Some(n) => {
                            if s != n {
                                println!("FAIL C19: {}({}) = {:?} but {}({}) = {:?}", f, v, s, delegate, v, n);
                            }
                        }
                        None if *f == "p_flags_to_string" => {
                            // PF_X = 1, PF_W = 2, PF_R = 4: a value made of these bits only is rendered as the
                            // three permission letters; anything else falls back to text containing the number
                            if v & !7 == 0 {
                                let want = format!("{}{}{}", if v & 4 != 0 { "R" } else { " " }, if v & 2 != 0 { "W" } else { " " }, if v & 1 != 0 { "E" } else { " " });
                                if s != want {
                                    println!("FAIL C19: p_flags_to_string({}) = {:?}, expected {:?}", v, s, want);
                                }
                            } else {
                                let hex = format!("{:x}", v);
                                if !(s.contains(&hex) || s.contains(&v.to_string())) {
                                    println!("FAIL C19: p_flags_to_string({}) = {:?} does not contain the number", v, s);
                                }
                            }
                        }
                        None => {
                            let hex = format!("{:x}", v);
                            if !(s.contains(&hex) || s.contains(&v.to_string())) && *f != "p_flags_to_string" {
                                println!("FAIL C19: {}({}) = {:?} does not contain the number", f, v, s);
                            }
                        }
                    }
                }
            } else if let Some(r) = call_to_str(f, v) {
                if let Some(s) = r {
                    println!("tostr {} {} {}", f, v, s);
                    if SYMBOLIC.contains(f) {
                        // the returned name must be the identifier of an exported constant with this value
                        let ok = ABI_CONSTS.iter().any(|(n, c)| *n == s && *c == v);
                        if !ok {
                            println!("FAIL C19: {}({}) = {:?} is not the identifier of an exported constant with that value", f, v, s);
                        }
                    }
                }
            }
        }
    }
    println!("evaluated {}", evaluated);
}
