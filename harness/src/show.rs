//! Canonical text form of implementation values — must match lean/ElfVerif/Model/Show.lean.
use elf::compression::CompressionHeader;
use elf::dynamic::Dyn;
use elf::endian::EndianParse;
use elf::file::{Class, FileHeader};
use elf::gnu_symver::{VerDef, VerDefAux, VerNeed, VerNeedAux, VersionIndex};
use elf::hash::{GnuHashHeader, SysVHashHeader};
use elf::note::{Note, NoteGnuAbiTag};
use elf::relocation::{Rel, Rela};
use elf::section::SectionHeader;
use elf::segment::ProgramHeader;
use elf::symbol::Symbol;
use elf::ParseError;
use std::collections::HashMap;

pub fn show_err(e: &ParseError) -> String {
    match e {
        ParseError::BadMagic(m) => format!("BadMagic({},{},{},{})", m[0], m[1], m[2], m[3]),
        ParseError::UnsupportedElfClass(v) => format!("UnsupportedElfClass({v})"),
        ParseError::UnsupportedElfEndianness(v) => format!("UnsupportedElfEndianness({v})"),
        ParseError::UnsupportedVersion((a, b)) => format!("UnsupportedVersion({a},{b})"),
        ParseError::BadOffset(o) => format!("BadOffset({o})"),
        ParseError::StringTableMissingNul(o) => format!("StringTableMissingNul({o})"),
        ParseError::BadEntsize((a, b)) => format!("BadEntsize({a},{b})"),
        ParseError::UnexpectedSectionType((a, b)) => format!("UnexpectedSectionType({a},{b})"),
        ParseError::UnexpectedSegmentType((a, b)) => format!("UnexpectedSegmentType({a},{b})"),
        ParseError::UnexpectedAlignment(a) => format!("UnexpectedAlignment({a})"),
        ParseError::SliceReadError((a, b)) => format!("SliceReadError({a},{b})"),
        ParseError::IntegerOverflow => "IntegerOverflow".into(),
        ParseError::Utf8Error(_) => "Utf8Error".into(),
        ParseError::TryFromSliceError(_) => "TryFromSliceError".into(),
        ParseError::TryFromIntError(_) => "TryFromIntError".into(),
        ParseError::IOError(_) => "IOError".into(),
    }
}

pub fn show_res<T>(r: &Result<T, ParseError>, f: impl FnOnce(&T) -> String) -> String {
    match r {
        Ok(v) => format!("ok {}", f(v)),
        Err(e) => format!("err {}", show_err(e)),
    }
}

pub fn show_opt<T>(o: &Option<T>, f: impl FnOnce(&T) -> String) -> String {
    match o {
        Some(v) => format!("some {}", f(v)),
        None => "none".into(),
    }
}

pub fn show_bool(b: bool) -> &'static str {
    if b {
        "1"
    } else {
        "0"
    }
}

pub fn show_class(c: Class) -> &'static str {
    match c {
        Class::ELF32 => "32",
        Class::ELF64 => "64",
    }
}

/// Where a returned slice points, relative to the request's input blob(s).
pub struct Bases<'a>(pub Vec<&'a [u8]>);

impl<'a> Bases<'a> {
    pub fn loc(&self, s: &[u8]) -> String {
        if s.is_empty() {
            return "@+0".into();
        }
        let p = s.as_ptr() as usize;
        for b in &self.0 {
            let bp = b.as_ptr() as usize;
            if p >= bp && p + s.len() <= bp + b.len() {
                return format!("@{}+{}", p - bp, s.len());
            }
        }
        format!("@FOREIGN+{}", s.len())
    }
}

/// `name: value` pairs out of a derived `Debug` rendering (for structs with private fields).
pub fn debug_fields<T: core::fmt::Debug>(x: &T) -> HashMap<String, String> {
    let s = format!("{:?}", x);
    let mut m = HashMap::new();
    let inner = match (s.find('{'), s.rfind('}')) {
        (Some(a), Some(b)) if a < b => &s[a + 1..b],
        _ => "",
    };
    for part in inner.split(',') {
        if let Some((k, v)) = part.split_once(':') {
            m.insert(k.trim().to_string(), v.trim().to_string());
        }
    }
    m
}

fn dbg_get(m: &HashMap<String, String>, k: &str) -> String {
    m.get(k).cloned().unwrap_or_else(|| format!("?{k}"))
}

pub trait Show {
    fn show(&self) -> String;
}

impl Show for SectionHeader {
    fn show(&self) -> String {
        format!(
            "shdr({},{},{},{},{},{},{},{},{},{})",
            self.sh_name, self.sh_type, self.sh_flags, self.sh_addr, self.sh_offset, self.sh_size,
            self.sh_link, self.sh_info, self.sh_addralign, self.sh_entsize
        )
    }
}
impl Show for ProgramHeader {
    fn show(&self) -> String {
        format!(
            "phdr({},{},{},{},{},{},{},{})",
            self.p_type, self.p_offset, self.p_vaddr, self.p_paddr, self.p_filesz, self.p_memsz,
            self.p_flags, self.p_align
        )
    }
}
impl Show for Symbol {
    fn show(&self) -> String {
        format!(
            "sym({},{},{},{},{},{})",
            self.st_name, self.st_shndx, self.st_info, self.st_other, self.st_value, self.st_size
        )
    }
}
impl Show for Rel {
    fn show(&self) -> String {
        format!("rel({},{},{})", self.r_offset, self.r_sym, self.r_type)
    }
}
impl Show for Rela {
    fn show(&self) -> String {
        format!("rela({},{},{},{})", self.r_offset, self.r_sym, self.r_type, self.r_addend)
    }
}
impl Show for Dyn {
    fn show(&self) -> String {
        format!("dyn({},{})", self.d_tag, self.d_val())
    }
}
impl Show for CompressionHeader {
    fn show(&self) -> String {
        format!("chdr({},{},{})", self.ch_type, self.ch_size, self.ch_addralign)
    }
}
impl Show for NoteGnuAbiTag {
    fn show(&self) -> String {
        format!("abitag({},{},{},{})", self.os, self.major, self.minor, self.subminor)
    }
}
impl Show for SysVHashHeader {
    fn show(&self) -> String {
        format!("sysvhdr({},{})", self.nbucket, self.nchain)
    }
}
impl Show for GnuHashHeader {
    fn show(&self) -> String {
        format!("gnuhdr({},{},{},{})", self.nbucket, self.table_start_idx, self.nbloom, self.nshift)
    }
}
impl Show for VersionIndex {
    fn show(&self) -> String {
        format!("{}", self.0)
    }
}
impl Show for u32 {
    fn show(&self) -> String {
        format!("{}", self)
    }
}
impl Show for u64 {
    fn show(&self) -> String {
        format!("{}", self)
    }
}
impl Show for VerDef {
    fn show(&self) -> String {
        let m = debug_fields(self);
        format!(
            "verdef({},{},{},{},{},{})",
            self.vd_flags, self.vd_ndx, self.vd_cnt, self.vd_hash, dbg_get(&m, "vd_aux"), dbg_get(&m, "vd_next")
        )
    }
}
impl Show for VerDefAux {
    fn show(&self) -> String {
        let m = debug_fields(self);
        format!("verdaux({},{})", self.vda_name, dbg_get(&m, "vda_next"))
    }
}
impl Show for VerNeed {
    fn show(&self) -> String {
        let m = debug_fields(self);
        format!("verneed({},{},{},{})", self.vn_cnt, self.vn_file, dbg_get(&m, "vn_aux"), dbg_get(&m, "vn_next"))
    }
}
impl Show for VerNeedAux {
    fn show(&self) -> String {
        let m = debug_fields(self);
        format!(
            "vernaux({},{},{},{},{})",
            self.vna_hash, self.vna_flags, self.vna_other, self.vna_name, dbg_get(&m, "vna_next")
        )
    }
}

pub fn show_ehdr<E: EndianParse>(h: &FileHeader<E>) -> String {
    format!(
        "ehdr({},{},{},{},{},{},{},{},{},{},{},{},{},{},{},{},{})",
        show_class(h.class), show_bool(h.endianness.is_little()), h.version, h.osabi, h.abiversion,
        h.e_type, h.e_machine, h.e_entry, h.e_phoff, h.e_shoff, h.e_flags, h.e_ehsize,
        h.e_phentsize, h.e_phnum, h.e_shentsize, h.e_shnum, h.e_shstrndx
    )
}

pub fn show_note(n: &Note<'_>, b: &Bases<'_>) -> String {
    match n {
        Note::GnuAbiTag(t) => format!("note:{}", t.show()),
        Note::GnuBuildId(id) => format!("note:buildid({})", b.loc(id.0)),
        Note::Unknown(a) => format!(
            "note:any({},{},{},str={})",
            a.n_type,
            b.loc(a.name),
            b.loc(a.desc),
            show_res(&a.name_str(), |s| b.loc(s.as_bytes()))
        ),
    }
}

/// FNV-1a 64 over a string — digest of long transcripts (tables whose location is not observable).
pub fn fnv(s: &str) -> u64 {
    let mut h: u64 = 0xcbf29ce484222325;
    for b in s.bytes() {
        h ^= b as u64;
        h = h.wrapping_mul(0x100000001b3);
    }
    h
}

pub fn hex(b: &[u8]) -> String {
    if b.is_empty() {
        return "-".into();
    }
    let mut s = String::with_capacity(b.len() * 2);
    for x in b {
        s.push_str(&format!("{:02x}", x));
    }
    s
}

pub fn unhex(s: &str) -> Vec<u8> {
    if s == "-" {
        return vec![];
    }
    let b = s.as_bytes();
    let v = |c: u8| -> u8 {
        match c {
            b'0'..=b'9' => c - b'0',
            b'a'..=b'f' => c - b'a' + 10,
            b'A'..=b'F' => c - b'A' + 10,
            _ => 0,
        }
    };
    (0..b.len() / 2).map(|i| v(b[2 * i]) * 16 + v(b[2 * i + 1])).collect()
}
