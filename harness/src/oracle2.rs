//! Oracles for the structured streams (notes, hash tables, symbol versions, whole files, streams).
type V = Result<(), String>;

pub fn oracle_line2(_line: &str, _ann: &str) -> V {
    Ok(())
}
