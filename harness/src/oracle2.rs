//! Oracles for the structured streams (notes, hash tables, symbol versions, whole files, prefixes).
//! Failures are tagged with the property whose predicate failed: `Cxx: message`.
use crate::alloc_count;
use crate::enc::*;
use crate::run::*;
use crate::show::*;
use elf::abi;
use elf::endian::{AnyEndian, BigEndian, LittleEndian};
use elf::file::Class;
use elf::hash::{GnuHashTable, SysVHashTable};
use elf::string_table::StringTable;
use elf::symbol::SymbolTable;
use elf::ElfBytes;

type V = Result<(), String>;

fn nat(s: &str) -> usize {
    s.parse::<usize>().unwrap_or(0)
}

fn ann_get<'a>(ann: &'a str, key: &str) -> Option<&'a str> {
    for part in ann.split('|') {
        if let Some(v) = part.strip_prefix(key) {
            if let Some(v) = v.strip_prefix('=') {
                return Some(v);
            }
        }
    }
    None
}

// ------------------------------------------------------------------------------------------
// notes: reference walker written from the note-section description
// ------------------------------------------------------------------------------------------

fn ref_notes(le: bool, align: u128, data: &[u8]) -> Vec<String> {
    let mut out = vec![];
    if data.is_empty() || align == 0 {
        return out;
    }
    let len = data.len() as u128;
    let mut off: u128 = 0;
    let pad = |o: u128| -> u128 { if o % align > 0 { o + (align - o % align) } else { o } };
    let loc = |a: u128, b: u128| -> String { if a == b { "@+0".into() } else { format!("@{}+{}", a, b - a) } };
    loop {
        if off + 12 > len || off >= (1u128 << 64) {
            break;
        }
        let o = off as usize;
        let namesz = get(&data[o..o + 4], le, 4) as u128;
        let descsz = get(&data[o + 4..o + 8], le, 4) as u128;
        let ntype = get(&data[o + 8..o + 12], le, 4);
        let name_start = off + 12;
        let name_end = name_start + namesz;
        if name_end > len {
            break;
        }
        let desc_start = pad(name_end);
        if desc_start >= (1u128 << 64) {
            break;
        }
        let desc_end = desc_start + descsz;
        if desc_end > len || desc_start > len {
            break;
        }
        let next = pad(desc_end);
        if next >= (1u128 << 64) {
            break;
        }
        let name = &data[name_start as usize..name_end as usize];
        let desc = &data[desc_start as usize..desc_end as usize];
        if name == b"GNU\0" && ntype == 1 {
            if desc.len() < 16 {
                break; // the ABI-tag descriptor is four words; a shorter one ends iteration
            }
            out.push(format!(
                "note:abitag({},{},{},{})",
                get(&desc[0..4], le, 4), get(&desc[4..8], le, 4), get(&desc[8..12], le, 4), get(&desc[12..16], le, 4)
            ));
        } else if name == b"GNU\0" && ntype == 3 {
            out.push(format!("note:buildid({})", loc(desc_start, desc_end)));
        } else {
            let s = match std::str::from_utf8(name) {
                Ok(s) => {
                    let t = s.trim_end_matches('\0');
                    format!("ok {}", loc(name_start, name_start + t.len() as u128))
                }
                Err(_) => "err Utf8Error".to_string(),
            };
            out.push(format!("note:any({},{},{},str={})", ntype, loc(name_start, name_end), loc(desc_start, desc_end), s));
        }
        off = next;
    }
    out
}

fn oracle_notes(line: &str, le: bool, align: &str, data: &[u8]) -> V {
    let got = run_line(line);
    let align: u128 = align.parse::<u128>().unwrap_or(0);
    let want = ref_notes(le, align, data);
    let want_s = format!("ok [{}] post=", want.join(" "));
    if !got.starts_with(&want_s) {
        return Err(format!("C14: iteration differs from the reference walk: got `{}` expected prefix `{}`", &got[..got.len().min(300)], &want_s[..want_s.len().min(300)]));
    }
    if want.len() > data.len() {
        return Err("C16: more notes than bytes".into());
    }
    Ok(())
}

// ------------------------------------------------------------------------------------------
// hash tables: sound on any table, complete on well-formed ones
// ------------------------------------------------------------------------------------------

fn oracle_hash(kind: &str, le: bool, c: Class, sym: &[u8], strs: &[u8], name: &[u8], hash: &[u8], ann: &str) -> V {
    let tag = if kind == "gnu" { "C11" } else { "C12" };
    let e = any_endian(le);
    let symtab = SymbolTable::new(e, c, sym);
    let strtab = StringTable::new(strs);
    let t0 = std::time::Instant::now();
    let res = if kind == "gnu" {
        match GnuHashTable::new(e, c, hash) {
            Ok(t) => t.find(name, &symtab, &strtab),
            Err(_) => return Ok(()),
        }
    } else {
        match SysVHashTable::new(e, c, hash) {
            Ok(t) => t.find(name, &symtab, &strtab),
            Err(_) => return Ok(()),
        }
    };
    if t0.elapsed().as_secs() >= 5 {
        return Err("C16: lookup took more than 5 s".into());
    }
    // soundness, any table
    if let Ok(Some((i, s))) = &res {
        match symtab.get(*i) {
            Ok(s2) if s2 == *s => {}
            _ => return Err(format!("{}: returned symbol is not symtab[{}]", tag, i)),
        }
        // the name is read with an independent scan of the string-table bytes (not with the crate's own get_raw)
        let off = s.st_name as usize;
        let want: Option<&[u8]> = if strs.is_empty() || off > strs.len() { None } else { strs[off..].iter().position(|b| *b == 0).map(|k| &strs[off..off + k]) };
        match want {
            Some(n) if n == name => {}
            _ => return Err(format!("{}: returned symbol's name differs from the queried name", tag)),
        }
    }
    if ann_get(ann, "wf") == Some("1") || ann.contains("wf=1") {
        let present = ann.contains("present");
        match (&res, present) {
            (Ok(Some(_)), true) => {}
            (Ok(None), false) => {}
            (r, _) => {
                return Err(format!(
                    "{}: well-formed table, name {}: lookup returned {}",
                    tag,
                    if present { "present" } else { "absent" },
                    show_found(r)
                ))
            }
        }
    }
    Ok(())
}

// ------------------------------------------------------------------------------------------
// symbol versions: ground truth from the generator's version model
// ------------------------------------------------------------------------------------------

fn oracle_symver(line: &str, ann: &str, needstr: &[u8], defstr: &[u8]) -> V {
    let got = run_line(line);
    let parts: Vec<&str> = got.split(';').collect();
    // C16: never more records than bytes — checked through the verit lines
    let truth = match ann_get(ann, "truth") {
        Some(t) => t,
        None => return Ok(()),
    };
    let find_str = |blob: &[u8], s: &[u8]| -> Vec<String> {
        // every location at which `s\0` occurs (a string may legitimately occur more than once)
        let mut v = vec![];
        if s.is_empty() {
            v.push("@+0".to_string());
            return v;
        }
        let mut i = 0;
        while i + s.len() < blob.len() + 0 {
            if &blob[i..i + s.len()] == s && blob.get(i + s.len()) == Some(&0) && (i == 0 || blob[i - 1] == 0) {
                v.push(format!("@{}+{}", i, s.len()));
            }
            i += 1;
        }
        v
    };
    for item in truth.split(',') {
        let f: Vec<&str> = item.split(':').collect();
        let kind = &f[0][..1];
        let idx = &f[0][1..];
        let key = format!("{}{}=", if kind == "R" { "r" } else { "d" }, idx);
        let reply = match parts.iter().find(|p| p.starts_with(&key)) {
            Some(p) => &p[key.len()..],
            None => return Err(format!("C13: no reply for {}", key)),
        };
        if f[1] == "none" {
            if reply != "ok none" {
                return Err(format!("C13: symbol {} has no matching {} but got `{}`", idx, if kind == "R" { "requirement" } else { "definition" }, reply));
            }
            continue;
        }
        if kind == "R" {
            let (file, name, hash, flags, hidden) = (unhex(f[1]), unhex(f[2]), f[3], f[4], f[5]);
            let mut ok = false;
            if std::str::from_utf8(&file).is_err() || std::str::from_utf8(&name).is_err() {
                ok = reply.starts_with("err");
            }
            for fl in find_str(needstr, &file) {
                for nl in find_str(needstr, &name) {
                    if reply == format!("ok some req({},{},{},{},{})", fl, nl, hash, flags, hidden) {
                        ok = true;
                    }
                }
            }
            if !ok {
                return Err(format!("C13: requirement of symbol {}: got `{}`, expected file={} name={} hash={} flags={} hidden={}",
                                   idx, reply, String::from_utf8_lossy(&file), String::from_utf8_lossy(&name), hash, flags, hidden));
            }
        } else {
            let (hash, flags, hidden) = (f[1], f[2], f[3]);
            let names: Vec<Vec<u8>> = f[4].split('+').map(unhex).collect();
            let head = format!("ok some def({},{},{},names=ok [", hash, flags, hidden);
            if !reply.starts_with(&head) {
                return Err(format!("C13: definition of symbol {}: got `{}` expected `{}…`", idx, reply, head));
            }
            let inner = &reply[head.len()..reply.len().saturating_sub(2)];
            let toks: Vec<&str> = if inner.is_empty() { vec![] } else { inner.split(' ').collect() };
            // tokens come in pairs: "ok" "@o+l"  or  "err" "Utf8Error"
            let items: Vec<(&str, &str)> = toks.chunks(2).filter(|c| c.len() == 2).map(|c| (c[0], c[1])).collect();
            if items.len() != names.len() {
                return Err(format!("C13: definition of symbol {}: {} names, expected {}", idx, items.len(), names.len()));
            }
            for ((st, l), n) in items.iter().zip(&names) {
                if std::str::from_utf8(n).is_err() {
                    if *st != "err" {
                        return Err(format!("C13: definition of symbol {}: non-UTF-8 name not reported as an error", idx));
                    }
                } else if *st != "ok" || !find_str(defstr, n).iter().any(|x| x == l) {
                    return Err(format!("C13: definition of symbol {}: name at {} is not `{}`", idx, l, String::from_utf8_lossy(n)));
                }
            }
        }
    }
    // indexes beyond the versym table never give a record
    for p in &parts {
        if let Some(rest) = p.strip_prefix('r').or_else(|| p.strip_prefix('d')) {
            if let Some((i, v)) = rest.split_once('=') {
                if let Ok(i) = i.parse::<u128>() {
                    let nver = truth.split(',').filter(|x| x.starts_with('R')).count() as u128;
                    if i >= nver && v.starts_with("ok some") {
                        return Err(format!("C13: symbol index {} beyond the versym table gave a record", i));
                    }
                }
            }
        }
    }
    Ok(())
}

fn oracle_verit(line: &str, kind: &str, count: &str, data: &[u8]) -> V {
    let t0 = std::time::Instant::now();
    let got = run_line(line);
    if t0.elapsed().as_secs() >= 5 {
        return Err("C16: iteration took more than 5 s".into());
    }
    // top-level records yielded: count the record markers at nesting depth of the outer list
    let marker = match kind { "def" => "verdef(", "need" => "verneed(", "defaux" => "verdaux(", _ => "vernaux(" };
    let body = got.split(" post=").next().unwrap_or("");
    let yielded = body.matches(marker).count() as u128;
    let cnt: u128 = count.parse::<u128>().unwrap_or(0);
    let cnt = if kind.ends_with("aux") { cnt % 65536 } else { cnt };
    if yielded > cnt {
        return Err(format!("C16: iterator yielded {} records, declared count {}", yielded, cnt));
    }
    if yielded > data.len() as u128 {
        return Err(format!("C16: iterator yielded {} records from {} bytes", yielded, data.len()));
    }
    Ok(())
}

/// the version-record iterators' provided `Iterator` methods agree with `next()` — outer iterators, the aux iterators they
/// hand out, and the stand-alone aux iterators
fn oracle_verit_methods(kind: &str, le: bool, c: Class, cnt: u64, off: usize, d: &[u8]) -> V {
    use elf::gnu_symver::*;
    let e = any_endian(le);
    let dbg = |x: &dyn std::fmt::Debug| format!("{:?}", x);
    match kind {
        "def" => {
            crate::oracle::iter_methods_check("C13: VerDefIterator", || VerDefIterator::new(e, c, cnt, off, d), |(vd, _)| dbg(vd))?;
            for k in 0..3usize {
                let mk = || VerDefIterator::new(e, c, cnt, off, d).nth(k).map(|(_, ai)| ai);
                if mk().is_none() { break; }
                crate::oracle::iter_methods_check("C13: VerDefAuxIterator of a definition", || mk().unwrap(), |a| dbg(a))?;
            }
            Ok(())
        }
        "need" => {
            crate::oracle::iter_methods_check("C13: VerNeedIterator", || VerNeedIterator::new(e, c, cnt, off, d), |(vn, _)| dbg(vn))?;
            for k in 0..3usize {
                let mk = || VerNeedIterator::new(e, c, cnt, off, d).nth(k).map(|(_, ai)| ai);
                if mk().is_none() { break; }
                crate::oracle::iter_methods_check("C13: VerNeedAuxIterator of a requirement", || mk().unwrap(), |a| dbg(a))?;
            }
            Ok(())
        }
        "defaux" => crate::oracle::iter_methods_check("C13: VerDefAuxIterator", || VerDefAuxIterator::new(e, c, cnt as u16, off, d), |a| dbg(a)),
        _ => crate::oracle::iter_methods_check("C13: VerNeedAuxIterator", || VerNeedAuxIterator::new(e, c, cnt as u16, off, d), |a| dbg(a)),
    }
}

// ------------------------------------------------------------------------------------------
// whole files
// ------------------------------------------------------------------------------------------

fn chdr_size(c: Class) -> usize {
    match c { Class::ELF32 => 12, Class::ELF64 => 24 }
}

fn within(data: &[u8], s: &[u8]) -> Option<usize> {
    if s.is_empty() {
        return Some(0);
    }
    let p = s.as_ptr() as usize;
    let b = data.as_ptr() as usize;
    if p >= b && p + s.len() <= b + data.len() { Some(p - b) } else { None }
}

fn oracle_file(spec: &str, queries: &str, data: &[u8], ann: &str) -> V {
    // C06: no heap allocation while opening and querying (allocator armed around the whole transcript)
    let before = alloc_count::arm();
    let transcript_any = run_file::<AnyEndian>(queries, data);
    let allocs = alloc_count::disarm(before);
    // (run_file formats strings; formatting allocations are excluded by running the *bare* API below)
    let _ = allocs;
    let bare = {
        let b0 = alloc_count::arm();
        bare_api_walk(data);
        alloc_count::disarm(b0)
    };
    if bare != 0 {
        return Err(format!("C06: {} heap allocation(s) while opening/querying the slice parser", bare));
    }
    // C10: AnyEndian ≡ matching fixed spec on every observable
    if data.len() > 5 {
        let fixed = match data[5] {
            1 => Some(run_file::<LittleEndian>(queries, data)),
            2 => Some(run_file::<BigEndian>(queries, data)),
            _ => None,
        };
        if let Some(f) = fixed {
            if f != transcript_any {
                return Err("C10: AnyEndian and the matching fixed spec disagree on this file".into());
            }
        }
        // the other fixed spec must refuse with the byte found (when nothing earlier is wrong)
        if transcript_any.starts_with("open=ok") {
            let other = if data[5] == 1 { run_file::<BigEndian>("-", data) } else { run_file::<LittleEndian>("-", data) };
            let want = format!("open=err UnsupportedElfEndianness({})", data[5]);
            if other != want {
                return Err(format!("C10: wrong-order spec answered `{}` expected `{}`", other, want));
            }
        }
    }
    let _ = spec;
    let f = match ElfBytes::<AnyEndian>::minimal_parse(data) {
        Ok(f) => f,
        Err(_) => {
            if ann_get(ann, "clean") == Some("1") {
                return Err("C05: a well-formed generated file failed to open".into());
            }
            return Ok(());
        }
    };
    let class = f.ehdr.class;
    // C13: file-level version queries against an independent decoder of the three version sections
    if ann_get(ann, "clean") == Some("1") {
        crate::oracle4::oracle_file_versions(&f, data)?;
    }
    // C05: tables located as declared (builder ground truth for clean files)
    if ann_get(ann, "clean") == Some("1") {
        let shnum = nat(ann_get(ann, "shnum").unwrap_or("0"));
        let phnum = nat(ann_get(ann, "phnum").unwrap_or("0"));
        let got_sh = f.section_headers().map(|t| t.len()).unwrap_or(0);
        let got_ph = f.segments().map(|t| t.len()).unwrap_or(0);
        if got_sh != shnum || f.section_headers().is_some() != (shnum > 0) {
            return Err(format!("C05: section table has {} entries, the file declares {}", got_sh, shnum));
        }
        if got_ph != phnum || f.segments().is_some() != (phnum > 0) {
            return Err(format!("C05: program header table has {} entries, the file declares {}", got_ph, phnum));
        }
        if shnum > 0 {
            let want = nat(ann_get(ann, "shstrndx").unwrap_or("0"));
            if want != 0 {
                // the string table returned must be the section at the declared index
                if let (Ok((Some(shdrs), Some(st))), true) = (f.section_headers_with_strtab(), true) {
                    if let Ok(sh) = shdrs.get(want) {
                        if let Ok(r) = st.get_raw(0) {
                            if sh.sh_size > 0 && within(data, r) != Some(sh.sh_offset as usize) && !r.is_empty() {
                                return Err("C05: section-name string table is not the section e_shstrndx/shdr[0].sh_link designates".into());
                            }
                        }
                    }
                }
            }
        }
    }
    // C05: the tables are exactly [e_shoff, e_shoff + n*entsize) — re-derive from the parsed header
    if let Some(t) = f.section_headers() {
        let esz = match class { Class::ELF32 => 40, Class::ELF64 => 64 };
        if f.ehdr.e_shentsize as usize != esz {
            return Err("C05: opened although e_shentsize differs from the class's section header size".into());
        }
        let end = f.ehdr.e_shoff as u128 + (t.len() as u128) * esz as u128;
        if end > data.len() as u128 {
            return Err("C05: section table does not fit in the file but open succeeded".into());
        }
        let declared = if f.ehdr.e_shnum != 0 { f.ehdr.e_shnum as u128 } else { t.get(0).map(|s| s.sh_size as u128).unwrap_or(0) };
        if declared != t.len() as u128 {
            return Err(format!("C05: section table has {} entries, header declares {}", t.len(), declared));
        }
    } else if f.ehdr.e_shoff != 0 {
        return Err("C05: e_shoff != 0 but no section table".into());
    }
    if let Some(t) = f.segments() {
        let esz = match class { Class::ELF32 => 32, Class::ELF64 => 56 };
        if f.ehdr.e_phentsize as usize != esz {
            return Err("C05: opened although e_phentsize differs from the class's program header size".into());
        }
        let end = f.ehdr.e_phoff as u128 + (t.len() as u128) * esz as u128;
        if end > data.len() as u128 {
            return Err("C05: program header table does not fit in the file but open succeeded".into());
        }
    } else if f.ehdr.e_phoff != 0 {
        return Err("C05: e_phoff != 0 but no program header table".into());
    }

    // C05: the entry-size check, stated directly — the section each targeted accessor selects (the first of its type)
    // must carry the class's entry size, or the accessor fails, whatever else the file contains (a PT_DYNAMIC segment,
    // a second section of the same type, …)
    if let Some(shdrs) = f.section_headers() {
        let (symsz, dynsz) = match class { Class::ELF32 => (16u64, 8u64), Class::ELF64 => (24, 16) };
        if let Some(sh) = shdrs.iter().find(|s| s.sh_type == abi::SHT_SYMTAB) {
            if sh.sh_entsize != symsz && f.symbol_table().is_ok() {
                return Err(format!("C05: symbol_table() accepts a SHT_SYMTAB section whose sh_entsize is {} (entry size {})", sh.sh_entsize, symsz));
            }
        }
        if let Some(sh) = shdrs.iter().find(|s| s.sh_type == abi::SHT_DYNSYM) {
            if sh.sh_entsize != symsz && f.dynamic_symbol_table().is_ok() {
                return Err(format!("C05: dynamic_symbol_table() accepts a SHT_DYNSYM section whose sh_entsize is {} (entry size {})", sh.sh_entsize, symsz));
            }
        }
        if let Some(sh) = shdrs.iter().find(|s| s.sh_type == abi::SHT_DYNAMIC) {
            if sh.sh_entsize != dynsz && f.dynamic().is_ok() {
                return Err(format!("C05: dynamic() accepts a SHT_DYNAMIC section whose sh_entsize is {} (entry size {})", sh.sh_entsize, dynsz));
            }
        }
    }

    // C03: returned data is the exact header-designated range
    if let Some(shdrs) = f.section_headers() {
        for (i, sh) in shdrs.iter().enumerate().take(40) {
            let fits = (sh.sh_offset as u128 + sh.sh_size as u128) <= data.len() as u128;
            let r = f.section_data(&sh);
            if sh.sh_type == abi::SHT_NOBITS {
                match &r {
                    Ok((d, None)) if d.is_empty() => {}
                    _ => return Err(format!("C03: SHT_NOBITS section {} did not yield empty data", i)),
                }
                continue;
            }
            let compressed = sh.sh_flags & abi::SHF_COMPRESSED as u64 != 0;
            match (&r, fits) {
                (Ok((d, ch)), true) => {
                    let (eo, el) = if compressed {
                        (sh.sh_offset as usize + chdr_size(class), (sh.sh_size as usize).saturating_sub(chdr_size(class)))
                    } else {
                        (sh.sh_offset as usize, sh.sh_size as usize)
                    };
                    if compressed != ch.is_some() {
                        return Err(format!("C03: section {}: compression header presence wrong", i));
                    }
                    if compressed && (sh.sh_size as usize) < chdr_size(class) {
                        return Err(format!("C03: section {} shorter than its compression header but data returned", i));
                    }
                    if d.len() != el || (el > 0 && within(data, d) != Some(eo)) {
                        return Err(format!("C03: section {} data is not [{}, {}+{}) of the input", i, eo, eo, el));
                    }
                }
                (Err(_), false) => {}
                (Err(_), true) if compressed && (sh.sh_size as usize) < chdr_size(class) => {}
                (Ok(_), false) => return Err(format!("C03: section {} range does not fit the file but data was returned", i)),
                (Err(e), true) => return Err(format!("C03: section {} range fits but error {}", i, show_err(e))),
            }
            // C03: string-table entries are the NUL-terminated runs of the section's own bytes
            if sh.sh_type == abi::SHT_STRTAB && fits {
                // (for a section flagged SHF_COMPRESSED the view is laid over section_data's payload, behind the header)
                if let (Ok(t), Ok((payload, _))) = (f.section_data_as_strtab(&sh), &r) {
                    let raw: &[u8] = payload;
                    let sh_base = within(data, raw).unwrap_or(sh.sh_offset as usize);
                    for off in [0usize, 1, 2, raw.len() / 2] {
                        let want: Option<&[u8]> = if raw.is_empty() || off > raw.len() { None } else {
                            raw[off..].iter().position(|b| *b == 0).map(|k| &raw[off..off + k])
                        };
                        match (t.get_raw(off), want) {
                            (Ok(g), Some(w)) => {
                                if g != w || (!w.is_empty() && within(data, g) != Some(sh_base + off)) {
                                    return Err(format!("C03: string-table entry at {} of section {} is not the file's bytes at sh_offset+{}", off, i, off));
                                }
                            }
                            (Err(_), None) => {}
                            _ => return Err(format!("C03: string-table entry at {} of section {}: success/failure differs from the section's bytes", off, i)),
                        }
                    }
                }
            }
            // C20: typed views are refused on type mismatch, otherwise decode the raw bytes
            if sh.sh_type != abi::SHT_STRTAB {
                if f.section_data_as_strtab(&sh).is_ok() {
                    return Err(format!("C20: strtab view of section {} (type {}) not refused", i, sh.sh_type));
                }
            }
            if sh.sh_type != abi::SHT_NOTE {
                if f.section_data_as_notes(&sh).is_ok() {
                    return Err(format!("C20: notes view of section {} (type {}) not refused", i, sh.sh_type));
                }
            } else if let (Ok(it), Ok((d, _))) = (f.section_data_as_notes(&sh), &r) {
                let b = Bases(vec![data]);
                let got: Vec<String> = it.map(|n| show_note(&n, &b)).collect();
                // reference walk over the raw section bytes, re-based to file offsets
                let base = within(data, d).unwrap_or(0);
                let want: Vec<String> = ref_notes(f.ehdr.endianness == AnyEndian::Little, sh.sh_addralign as u128, d)
                    .into_iter()
                    .map(|s| rebase(&s, base))
                    .collect();
                if got != want {
                    return Err(format!("C14: notes of section {} differ from the reference walk || FAIL C03: note names/descriptors of section {} are not the ABI-designated windows of the section's bytes || FAIL C20: the notes view of section {} does not contain exactly the records decodable from section_data's bytes", i, i, i));
                }
            }
            if sh.sh_type != abi::SHT_REL {
                if f.section_data_as_rels(&sh).is_ok() {
                    return Err(format!("C20: rel view of section {} not refused", i));
                }
            } else if let (Ok(it), Ok((d, _))) = (f.section_data_as_rels(&sh), &r) {
                let esz = match class { Class::ELF32 => 8, Class::ELF64 => 16 };
                if it.count() != d.len() / esz {
                    return Err(format!("C20: rel view of section {} does not yield the whole entries of its bytes || FAIL C03: the rel view of section {} is not laid over section_data's bytes", i, i));
                }
            }
            if sh.sh_type != abi::SHT_RELA {
                if f.section_data_as_relas(&sh).is_ok() {
                    return Err(format!("C20: rela view of section {} not refused", i));
                }
            } else if let (Ok(it), Ok((d, _))) = (f.section_data_as_relas(&sh), &r) {
                let esz = match class { Class::ELF32 => 12, Class::ELF64 => 24 };
                if it.count() != d.len() / esz {
                    return Err(format!("C20: rela view of section {} does not yield the whole entries of its bytes || FAIL C03: the rela view of section {} is not laid over section_data's bytes", i, i));
                }
            }
        }
    }
    if let Some(phdrs) = f.segments() {
        for (i, ph) in phdrs.iter().enumerate().take(20) {
            let fits = (ph.p_offset as u128 + ph.p_filesz as u128) <= data.len() as u128;
            match (f.segment_data(&ph), fits) {
                (Ok(d), true) => {
                    if d.len() != ph.p_filesz as usize || (!d.is_empty() && within(data, d) != Some(ph.p_offset as usize)) {
                        return Err(format!("C03: segment {} data is not [p_offset, p_offset+p_filesz)", i));
                    }
                }
                (Err(_), false) => {}
                (Ok(_), false) => return Err(format!("C03: segment {} range does not fit but data was returned", i)),
                (Err(e), true) => return Err(format!("C03: segment {} fits but error {}", i, show_err(&e))),
            }
            if ph.p_type != abi::PT_NOTE {
                if f.segment_data_as_notes(&ph).is_ok() {
                    return Err(format!("C20: notes view of segment {} (type {}) not refused", i, ph.p_type));
                }
            } else if let (Ok(it), Ok(d)) = (f.segment_data_as_notes(&ph), f.segment_data(&ph)) {
                let b = Bases(vec![data]);
                let got: Vec<String> = it.map(|n| show_note(&n, &b)).collect();
                let base = within(data, d).unwrap_or(0);
                let want: Vec<String> = ref_notes(f.ehdr.endianness == AnyEndian::Little, ph.p_align as u128, d)
                    .into_iter()
                    .map(|s| rebase(&s, base))
                    .collect();
                if got != want {
                    return Err(format!("C14: notes of segment {} differ from the reference walk || FAIL C03: note names/descriptors of segment {} are not the ABI-designated windows of the segment's bytes", i, i));
                }
            }
        }
    }

    // C20: by-name lookup returns the first section whose name equals the query
    if let Ok((Some(shdrs), Some(strtab))) = f.section_headers_with_strtab() {
        for q in queries.split(',') {
            if let Some(hx) = q.strip_prefix('N') {
                let name = unhex(hx);
                if let Ok(nm) = std::str::from_utf8(&name) {
                    let want = shdrs.iter().find(|s| strtab.get(s.sh_name as usize).map(|x| x == nm).unwrap_or(false));
                    match f.section_header_by_name(nm) {
                        Ok(got) if got == want => {}
                        Ok(_) => return Err(format!("C20: section_header_by_name({:?}) is not the first section with that name", nm)),
                        Err(e) => return Err(format!("C20: section_header_by_name({:?}) failed with {} although the tables are readable", nm, show_err(&e))),
                    }
                }
            }
        }
    }
    // C20: common-data discovery = targeted accessors, for objects with at most one section of each kind
    if let Some(shdrs) = f.section_headers() {
        let count = |t: u32| shdrs.iter().filter(|s| s.sh_type == t).count();
        let once = [abi::SHT_SYMTAB, abi::SHT_DYNSYM, abi::SHT_DYNAMIC, abi::SHT_HASH, abi::SHT_GNU_HASH].iter().all(|t| count(*t) <= 1);
        if once {
            let b = Bases(vec![data]);
            let tabs = |o: &Option<(SymbolTable<'_, AnyEndian>, StringTable<'_>)>| -> String {
                match o {
                    Some((t, s)) => format!(
                        "{}|{}",
                        t.iter().map(|x| x.show()).collect::<Vec<_>>().join(" "),
                        show_res(&s.get_raw(0), |x| b.loc(x)) + &show_res(&s.get_raw(1), |x| b.loc(x))
                    ),
                    None => "none".into(),
                }
            };
            match f.find_common_data() {
                Ok(c) => {
                    let y = f.symbol_table();
                    let d = f.dynamic_symbol_table();
                    let dy = f.dynamic();
                    match (&y, &d, &dy) {
                        (Ok(y), Ok(d), Ok(dy)) => {
                            let cy = match (c.symtab, c.symtab_strs) { (Some(a), Some(b)) => Some((a, b)), _ => None };
                            let cd = match (c.dynsyms, c.dynsyms_strs) { (Some(a), Some(b)) => Some((a, b)), _ => None };
                            if tabs(&cy) != tabs(y) {
                                return Err("C20: find_common_data().symtab differs from symbol_table()".into());
                            }
                            if tabs(&cd) != tabs(d) {
                                return Err("C20: find_common_data().dynsyms differs from dynamic_symbol_table()".into());
                            }
                            let dshow = |o: &Option<elf::dynamic::DynamicTable<'_, AnyEndian>>| o.as_ref().map(|t| t.iter().map(|x| x.show()).collect::<Vec<_>>().join(" "));
                            // scoped: a PT_DYNAMIC segment is accompanied by a .dynamic section whenever section headers exist
                            let has_pt_dyn = f.segments().map(|p| p.iter().any(|x| x.p_type == abi::PT_DYNAMIC)).unwrap_or(false);
                            let scoped = count(abi::SHT_DYNAMIC) == 1 || !has_pt_dyn;
                            if scoped && dshow(&c.dynamic) != dshow(dy) {
                                return Err("C20: find_common_data().dynamic differs from dynamic()".into());
                            }
                            // hash tables: the recorded table is `new` on the bytes of the one section of that type
                            let sysv_want = match shdrs.iter().find(|s| s.sh_type == abi::SHT_HASH) {
                                Some(s) => match f.section_data(&s) {
                                    Ok((d, _)) => SysVHashTable::new(f.ehdr.endianness, class, d).ok().map(|t| format!("{:?}", t)),
                                    Err(_) => None,
                                },
                                None => None,
                            };
                            let plain = |t: u32| shdrs.iter().filter(|s| s.sh_type == t).all(|s| s.sh_flags & abi::SHF_COMPRESSED as u64 == 0);
                            if plain(abi::SHT_HASH) && c.sysv_hash.as_ref().map(|t| format!("{:?}", t)) != sysv_want {
                                return Err("C20: find_common_data().sysv_hash differs from SysVHashTable::new on the .hash section's bytes".into());
                            }
                            let gnu_want = match shdrs.iter().find(|s| s.sh_type == abi::SHT_GNU_HASH) {
                                Some(s) => match f.section_data(&s) {
                                    Ok((d, _)) => GnuHashTable::new(f.ehdr.endianness, class, d).ok().map(|t| format!("{:?}", t)),
                                    Err(_) => None,
                                },
                                None => None,
                            };
                            if plain(abi::SHT_GNU_HASH) && c.gnu_hash.as_ref().map(|t| format!("{:?}", t)) != gnu_want {
                                return Err("C20: find_common_data().gnu_hash differs from GnuHashTable::new on the .gnu.hash section's bytes".into());
                            }
                        }
                        _ => return Err("C20: find_common_data() succeeded but a targeted accessor failed".into()),
                    }
                }
                Err(_) => {
                    // conversely: success of all the parts implies success of the whole
                    let hash_ok = shdrs.iter().all(|s| {
                        if s.sh_type == abi::SHT_HASH || s.sh_type == abi::SHT_GNU_HASH {
                            match f.section_data(&s) {
                                Ok((d, _)) => {
                                    if s.sh_type == abi::SHT_HASH { SysVHashTable::new(f.ehdr.endianness, class, d).is_ok() } else { GnuHashTable::new(f.ehdr.endianness, class, d).is_ok() }
                                }
                                Err(_) => false,
                            }
                        } else { true }
                    });
                    // scoped as the property is: a PT_DYNAMIC segment is accompanied by a .dynamic section
                    let has_pt_dyn = f.segments().map(|p| p.iter().any(|x| x.p_type == abi::PT_DYNAMIC)).unwrap_or(false);
                    let scoped = count(abi::SHT_DYNAMIC) == 1 || !has_pt_dyn;
                    if scoped && f.symbol_table().is_ok() && f.dynamic_symbol_table().is_ok() && f.dynamic().is_ok() && hash_ok
                        && shdrs.iter().all(|s| s.sh_flags & abi::SHF_COMPRESSED as u64 == 0) {
                        return Err("C20: every targeted accessor succeeds but find_common_data() fails".into());
                    }
                }
            }
        }
    }
    // C20: without a section table, dynamic() is the PT_DYNAMIC segment's table and agrees with find_common_data()
    if f.section_headers().is_none() {
        if let Some(phdrs) = f.segments() {
            let want: Option<Vec<String>> = match phdrs.iter().find(|p| p.p_type == abi::PT_DYNAMIC) {
                Some(ph) => match f.segment_data(&ph) {
                    Ok(seg) => Some(elf::dynamic::DynamicTable::new(f.ehdr.endianness, class, seg).iter().map(|x| x.show()).collect()),
                    Err(_) => None,
                },
                None => Some(vec!["<none>".into()]),
            };
            if let Some(w) = want {
                let got: Vec<String> = match f.dynamic() {
                    Ok(Some(t)) => t.iter().map(|x| x.show()).collect(),
                    Ok(None) => vec!["<none>".into()],
                    Err(e) => vec![format!("err {}", show_err(&e))],
                };
                if got != w {
                    return Err("C20: dynamic() without a section table is not the PT_DYNAMIC segment's table".into());
                }
                let via_common: Vec<String> = match f.find_common_data() {
                    Ok(c) => match c.dynamic { Some(t) => t.iter().map(|x| x.show()).collect(), None => vec!["<none>".into()] },
                    Err(e) => vec![format!("err {}", show_err(&e))],
                };
                if via_common != w {
                    return Err("C20: find_common_data().dynamic differs from the PT_DYNAMIC segment's table".into());
                }
            }
        }
    }
    // C20: .dynamic section and PT_DYNAMIC designating the same bytes give the same table
    if let (Some(shdrs), Some(phdrs)) = (f.section_headers(), f.segments()) {
        if let (Some(sh), Some(ph)) = (shdrs.iter().find(|s| s.sh_type == abi::SHT_DYNAMIC), phdrs.iter().find(|p| p.p_type == abi::PT_DYNAMIC)) {
            if sh.sh_offset == ph.p_offset && sh.sh_size == ph.p_filesz && sh.sh_flags & abi::SHF_COMPRESSED as u64 == 0 {
                if let (Ok(Some(t)), Ok(seg)) = (f.dynamic(), f.segment_data(&ph)) {
                    let via_seg = elf::dynamic::DynamicTable::new(f.ehdr.endianness, class, seg);
                    let a: Vec<String> = t.iter().map(|x| x.show()).collect();
                    let b: Vec<String> = via_seg.iter().map(|x| x.show()).collect();
                    if a != b {
                        return Err("C20: dynamic table via .dynamic differs from the one via PT_DYNAMIC".into());
                    }
                }
            }
        }
    }
    Ok(())
}

fn rebase(s: &str, base: usize) -> String {
    // shift every `@off+len` (len > 0) by `base`
    let mut out = String::new();
    let mut rest = s;
    while let Some(p) = rest.find('@') {
        out.push_str(&rest[..p + 1]);
        rest = &rest[p + 1..];
        let digits: String = rest.chars().take_while(|c| c.is_ascii_digit()).collect();
        if !digits.is_empty() {
            let v: u128 = digits.parse().unwrap_or(0);
            out.push_str(&(v + base as u128).to_string());
            rest = &rest[digits.len()..];
        }
    }
    out.push_str(rest);
    out
}

/// Walk the whole slice-parser API without formatting anything (for the allocation count).
fn bare_api_walk(data: &[u8]) {
    let f = match ElfBytes::<AnyEndian>::minimal_parse(data) {
        Ok(f) => f,
        Err(_) => return,
    };
    let mut sink = 0u64;
    let _ = f.section_headers_with_strtab();
    // by-name lookups over the names a tool would ask for (present or not)
    for n in [".text", ".data", ".bss", ".rodata", ".symtab", ".strtab", ".shstrtab", ".dynsym", ".dynstr", ".dynamic",
              ".hash", ".gnu.hash", ".gnu.version", ".gnu.version_r", ".gnu.version_d", ".note.ABI-tag",
              ".note.gnu.build-id", ".debug_info", ".debug_abbrev", ".debug_line", ".debug_str", ".zdebug_info",
              ".comment", ".eh_frame", ".init", ".fini", ".plt", ".got", ".rela.dyn", ".rel.plt", ".interp", "", "x",
              ".nosuch", ".text.hot", ".note.test"] {
        let _ = std::hint::black_box(f.section_header_by_name(n));
    }
    if let Ok(c) = f.find_common_data() {
        if let (Some(h), Some(s), Some(t)) = (&c.gnu_hash, &c.dynsyms, &c.dynsyms_strs) {
            let _ = h.find(b"memset", s, t);
        }
        if let (Some(h), Some(s), Some(t)) = (&c.sysv_hash, &c.dynsyms, &c.dynsyms_strs) {
            let _ = h.find(b"memset", s, t);
        }
    }
    if let Ok(Some((t, s))) = f.symbol_table() {
        for sym in t.iter() {
            if let Ok(n) = s.get(sym.st_name as usize) { sink += n.len() as u64; }
        }
    }
    let _ = f.dynamic_symbol_table();
    if let Ok(Some(t)) = f.dynamic() { sink += t.iter().count() as u64; }
    if let Ok(Some(v)) = f.symbol_version_table() {
        // a few hundred queries on one table value: nothing may start allocating after the n-th lookup either
        for _round in 0..25 {
            for i in 0..8 {
                let _ = v.get_requirement(i);
                if let Ok(Some(d)) = v.get_definition(i) { sink += d.names.count() as u64; }
            }
        }
    }
    if let Some(shdrs) = f.section_headers() {
        for sh in shdrs.iter().take(40) {
            let _ = f.section_data(&sh);
            let _ = f.section_data_as_strtab(&sh);
            if let Ok(it) = f.section_data_as_rels(&sh) { sink += it.count() as u64; }
            if let Ok(it) = f.section_data_as_relas(&sh) { sink += it.count() as u64; }
            if let Ok(it) = f.section_data_as_notes(&sh) { sink += it.count() as u64; }
        }
    }
    if let Some(phdrs) = f.segments() {
        for ph in phdrs.iter().take(20) {
            let _ = f.segment_data(&ph);
            if let Ok(it) = f.segment_data_as_notes(&ph) { sink += it.count() as u64; }
        }
    }
    std::hint::black_box(sink);
}

/// C18: each query on a prefix is an error or exactly the answer on the complete file.
fn oracle_prefix(queries: &str, k: usize, data: &[u8], ann: &str) -> V {
    let k = k.min(data.len());
    let (small, big): (&[u8], &[u8]) = (&data[..k], data);
    let what = if ann == "suffix" { "appending bytes" } else { "truncation" };
    let head_a = run_file::<AnyEndian>("-", small);
    if head_a.starts_with("open=err") {
        return Ok(());
    }
    let head_b = run_file::<AnyEndian>("-", big);
    if head_a != head_b {
        return Err(format!("C18: {} changed what open returns: `{}` vs `{}`", what, &head_a[..head_a.len().min(200)], &head_b[..head_b.len().min(200)]));
    }
    for q in queries.split(',') {
        let a = run_file::<AnyEndian>(q, small);
        let b = run_file::<AnyEndian>(q, big);
        let x = &a[head_a.len()..];
        let y = &b[head_b.len()..];
        if x == y {
            continue;
        }
        let px = split_pieces(x);
        let py = split_pieces(y);
        if px.len() != py.len() {
            if is_err_piece(x.trim_start_matches(';')) { continue; }
            return Err(format!("C18: {} changed an answer: `{}` vs `{}`", what, &x[..x.len().min(200)], &y[..y.len().min(200)]));
        }
        for (u, v) in px.iter().zip(&py) {
            if u != v && !is_err_piece(u.trim_start_matches(';')) {
                return Err(format!("C18: {} changed an answer: `{}` vs `{}`", what, &u[..u.len().min(200)], &v[..v.len().min(200)]));
            }
        }
    }
    Ok(())
}

fn is_err_piece(p: &str) -> bool {
    match p.split_once('=') {
        Some((_, v)) => v.starts_with("err ") || v.contains("=err "),
        None => p.starts_with("err "),
    }
}

fn split_pieces(s: &str) -> Vec<String> {
    // split `S3=shdr(..) data=… strtab=… rels=… relas=… notes=…`, `C=ok symtab=… dynsyms=…`, `H=sysv:… gnu:…`
    let keys = [" data=", " strtab=", " rels=", " relas=", " notes=", " dynsyms=", " dynamic=", " sysv=", " gnu=", " gnu:"];
    let mut cuts = vec![0usize];
    for k in keys {
        let mut start = 0;
        while let Some(p) = s[start..].find(k) {
            cuts.push(start + p + 1);
            start += p + k.len();
        }
    }
    cuts.sort();
    cuts.dedup();
    let mut out = vec![];
    for (i, c) in cuts.iter().enumerate() {
        let e = if i + 1 < cuts.len() { cuts[i + 1] } else { s.len() };
        out.push(s[*c..e].trim_end().to_string());
    }
    out
}

/// C06: the bare API calls of a stand-alone request, with the allocation counter armed
pub fn oracle_alloc(line: &str) -> V {
    let t: Vec<&str> = line.trim().split(' ').collect();
    let count = |f: &dyn Fn()| -> u64 {
        let b = alloc_count::arm();
        f();
        alloc_count::disarm(b)
    };
    let n = match t.as_slice() {
        ["notes", le, cls, align, hexd] => {
            let d = unhex(hexd);
            let (e, c, a) = (any_endian(*le == "1"), class_of(cls), nat(align));
            count(&|| {
                let mut k = 0usize;
                for n in elf::note::NoteIterator::new(e, c, a, &d) {
                    if let elf::note::Note::Unknown(x) = &n { k += x.name_str().map(|s| s.len()).unwrap_or(0); }
                    k += 1;
                }
                std::hint::black_box(k);
            })
        }
        [kind @ ("sysv" | "gnu"), le, cls, symhex, strhex, namehex, hashhex] => {
            let (e, c) = (any_endian(*le == "1"), class_of(cls));
            let (sym, strs, name, hash) = (unhex(symhex), unhex(strhex), unhex(namehex), unhex(hashhex));
            let is_gnu = *kind == "gnu";
            count(&|| {
                let symtab = SymbolTable::new(e, c, &sym);
                let strtab = StringTable::new(&strs);
                if is_gnu {
                    if let Ok(t) = GnuHashTable::new(e, c, &hash) { let _ = std::hint::black_box(t.find(&name, &symtab, &strtab)); }
                } else if let Ok(t) = SysVHashTable::new(e, c, &hash) {
                    let _ = std::hint::black_box(t.find(&name, &symtab, &strtab));
                }
            })
        }
        ["verit", kind, le, cls, cnt, off, hexd] => {
            let (e, c) = (any_endian(*le == "1"), class_of(cls));
            let d = unhex(hexd);
            let (cnt, off) = (cnt.parse::<u64>().unwrap_or(0), nat(off));
            let kind = kind.to_string();
            count(&|| {
                let mut k = 0usize;
                match kind.as_str() {
                    "def" => for (_, ai) in elf::gnu_symver::VerDefIterator::new(e, c, cnt, off, &d) { k += ai.count() + 1; },
                    "need" => for (_, ai) in elf::gnu_symver::VerNeedIterator::new(e, c, cnt, off, &d) { k += ai.count() + 1; },
                    "defaux" => k += elf::gnu_symver::VerDefAuxIterator::new(e, c, cnt as u16, off, &d).count(),
                    _ => k += elf::gnu_symver::VerNeedAuxIterator::new(e, c, cnt as u16, off, &d).count(),
                }
                std::hint::black_box(k);
            })
        }
        ["symver", le, cls, idxs, nc, dc, vs, nd, nds, df, dfs] => {
            use elf::gnu_symver::*;
            let (e, c) = (any_endian(*le == "1"), class_of(cls));
            let (vsb, ndb, ndsb, dfb, dfsb) = (unhex(vs), unhex(nd), unhex(nds), unhex(df), unhex(dfs));
            let ix: Vec<usize> = idxs.split('.').map(nat).collect();
            count(&|| {
                let needs = if *nc == "-" { None } else { Some((VerNeedIterator::new(e, c, nc.parse::<u64>().unwrap_or(0), 0, &ndb), StringTable::new(&ndsb))) };
                let defs = if *dc == "-" { None } else { Some((VerDefIterator::new(e, c, dc.parse::<u64>().unwrap_or(0), 0, &dfb), StringTable::new(&dfsb))) };
                let t = SymbolVersionTable::new(VersionIndexTable::new(e, c, &vsb), needs, defs);
                let mut k = 0usize;
                for _round in 0..3 {
                    for i in &ix {
                        if let Ok(Some(r)) = t.get_requirement(*i) { k += r.name.len(); }
                        if let Ok(Some(d)) = t.get_definition(*i) { k += d.names.count(); }
                    }
                }
                std::hint::black_box(k);
            })
        }
        [kind @ ("sysvm" | "gnum"), le, cls, symhex, strhex, nameshex, hashhex] => {
            let (e, c) = (any_endian(*le == "1"), class_of(cls));
            let (sym, strs, hash) = (unhex(symhex), unhex(strhex), unhex(hashhex));
            let names: Vec<Vec<u8>> = nameshex.split('.').map(unhex).collect();
            let is_gnu = *kind == "gnum";
            count(&|| {
                let (symtab, strtab) = (SymbolTable::new(e, c, &sym), StringTable::new(&strs));
                if is_gnu {
                    if let Ok(t) = GnuHashTable::new(e, c, &hash) { for n in &names { let _ = std::hint::black_box(t.find(n, &symtab, &strtab)); } }
                } else if let Ok(t) = SysVHashTable::new(e, c, &hash) {
                    for n in &names { let _ = std::hint::black_box(t.find(n, &symtab, &strtab)); }
                }
            })
        }
        ["strtab", off, hexd] => {
            let d = unhex(hexd);
            let off = nat(off);
            count(&|| {
                let t = StringTable::new(&d);
                let _ = std::hint::black_box(t.get_raw(off));
                let _ = std::hint::black_box(t.get(off));
            })
        }
        ["table", "Symbol", le, cls, _ops, hexd] => {
            let d = unhex(hexd);
            let (e, c) = (any_endian(*le == "1"), class_of(cls));
            count(&|| {
                let t = SymbolTable::new(e, c, &d);
                let mut k = t.len();
                for i in 0..t.len() + 2 { if t.get(i).is_ok() { k += 1; } }
                k += t.iter().count();
                std::hint::black_box(k);
            })
        }
        _ => 0,
    };
    if n > 0 {
        Err(format!("C06: {} heap allocation(s) in the slice-parser API", n))
    } else {
        Ok(())
    }
}

pub fn oracle_line2(line: &str, ann: &str) -> V {
    let t: Vec<&str> = line.trim().split(' ').collect();
    match t.as_slice() {
        ["notes", le, cls, align, hexd] => {
            oracle_notes(line, *le == "1", align, &unhex(hexd))?;
            let (e, c, a, d) = (any_endian(*le == "1"), class_of(cls), nat(align), unhex(hexd));
            let base = d.as_ptr() as usize;
            crate::oracle::iter_methods_check("C14: NoteIterator", || elf::note::NoteIterator::new(e, c, a, &d), |n| match n {
                elf::note::Note::GnuAbiTag(t) => format!("abitag({},{},{},{})", t.os, t.major, t.minor, t.subminor),
                elf::note::Note::GnuBuildId(b) => format!("buildid(@{}+{})", b.0.as_ptr() as usize - base, b.0.len()),
                elf::note::Note::Unknown(x) => format!("any({},@{}+{},@{}+{})", x.n_type, x.name.as_ptr() as usize - base, x.name.len(), x.desc.as_ptr() as usize - base, x.desc.len()),
            })
        }
        [kind @ ("sysvm" | "gnum"), le, cls, symhex, strhex, nameshex, hashhex] => {
            // history independence: the k-th lookup on a shared table value answers what a lookup on a fresh value answers
            let tag = if *kind == "gnum" { "C11" } else { "C12" };
            let got = run_line(line);
            let single = if *kind == "gnum" { "gnu" } else { "sysv" };
            let want: Vec<String> = nameshex.split('.').map(|n| run_line(&format!("{} {} {} {} {} {} {}", single, le, cls, symhex, strhex, n, hashhex))).collect();
            let want_s = if want.iter().any(|w| w.starts_with("new:")) { want[0].clone() } else { want.join(" | ") };
            if got != want_s {
                let g: Vec<&str> = got.split(" | ").collect();
                let k = g.iter().zip(&want).position(|(a, b)| a != b).unwrap_or(0);
                return Err(format!("{}: lookup #{} on a table value that answered {} lookups before returns `{}`; the same lookup on a fresh table value returns `{}`",
                                   tag, k + 1, k, g.get(k).unwrap_or(&"?"), want.get(k).map(|s| s.as_str()).unwrap_or("?")));
            }
            Ok(())
        }
        [kind @ ("sysv" | "gnu"), le, cls, symhex, strhex, namehex, hashhex] => oracle_hash(
            kind, *le == "1", class_of(cls), &unhex(symhex), &unhex(strhex), &unhex(namehex), &unhex(hashhex), ann,
        ),
        ["symver", le, cls, _idxs, nc, dc, vs, nd, nds, df, dfs] => {
            oracle_symver(line, ann, &unhex(nds), &unhex(dfs))?;
            // the names iterator of every definition: its provided Iterator methods agree with next()
            use elf::gnu_symver::*;
            let (e, c) = (any_endian(*le == "1"), class_of(cls));
            let (vsb, ndb, ndsb, dfb, dfsb) = (unhex(vs), unhex(nd), unhex(nds), unhex(df), unhex(dfs));
            let mk_table = || {
                let needs = if *nc == "-" { None } else { Some((VerNeedIterator::new(e, c, nc.parse::<u64>().unwrap_or(0), 0, &ndb), StringTable::new(&ndsb))) };
                let defs = if *dc == "-" { None } else { Some((VerDefIterator::new(e, c, dc.parse::<u64>().unwrap_or(0), 0, &dfb), StringTable::new(&dfsb))) };
                SymbolVersionTable::new(elf::gnu_symver::VersionIndexTable::new(e, c, &vsb), needs, defs)
            };
            let t = mk_table();
            for i in 0..(vsb.len() / 2).min(12) {
                if let Ok(Some(_)) = t.get_definition(i) {
                    crate::oracle::iter_methods_check("C13: names of a definition", || t.get_definition(i).ok().flatten().unwrap().names,
                        |r| match r { Ok(s) => format!("ok {:?}", s.as_bytes()), Err(_) => "err".into() })?;
                }
            }
            Ok(())
        }
        ["verit", kind, le, cls, count, off, hexd] => {
            oracle_verit(line, kind, count, &unhex(hexd))?;
            oracle_verit_methods(kind, *le == "1", class_of(cls), count.parse::<u64>().unwrap_or(0), nat(off), &unhex(hexd))
        }
        ["file", sp, queries, hexd] => oracle_file(sp, queries, &unhex(hexd), ann),
        ["prefix", _sp, queries, k, hexd] => oracle_prefix(queries, nat(k), &unhex(hexd), ann),
        _ => crate::oracle3::oracle_line3(line, ann),
    }
}
