//! Executes one request line against the real crate and renders the canonical reply
//! (same format as lean/Main.lean).
use crate::show::*;
use elf::abi;
use elf::endian::{AnyEndian, BigEndian, EndianParse, LittleEndian, NativeEndian};
use elf::file::Class;
use elf::gnu_symver::{
    SymbolVersionTable, VerDefAuxIterator, VerDefIterator, VerNeedAuxIterator, VerNeedIterator,
    VersionIndexTable,
};
use elf::hash::{GnuHashTable, SysVHashTable};
use elf::note::NoteIterator;
use elf::parse::{ParseAt, ParsingIterator, ParsingTable};
use elf::string_table::StringTable;
use elf::symbol::{Symbol, SymbolTable};
use elf::ElfBytes;
use elf::ParseError;

pub fn any_endian(le: bool) -> AnyEndian {
    if le {
        AnyEndian::Little
    } else {
        AnyEndian::Big
    }
}

pub fn class_of(s: &str) -> Class {
    if s == "32" {
        Class::ELF32
    } else {
        Class::ELF64
    }
}

fn nat(s: &str) -> usize {
    s.parse::<usize>().unwrap_or(0)
}

fn show_pm<T>(r: &Result<T, ParseError>, off: usize, f: impl FnOnce(&T) -> String) -> String {
    format!("{} {}", show_res(r, f), off)
}

pub fn run_int<E: EndianParse>(e: E, ty: &str, off: usize, data: &[u8]) -> String {
    let mut o = off;
    match ty {
        "u8" => show_pm(&e.parse_u8_at(&mut o, data), o, |v| v.to_string()),
        "u16" => show_pm(&e.parse_u16_at(&mut o, data), o, |v| v.to_string()),
        "u32" => show_pm(&e.parse_u32_at(&mut o, data), o, |v| v.to_string()),
        "u64" => show_pm(&e.parse_u64_at(&mut o, data), o, |v| v.to_string()),
        "i32" => show_pm(&e.parse_i32_at(&mut o, data), o, |v| v.to_string()),
        "i64" => show_pm(&e.parse_i64_at(&mut o, data), o, |v| v.to_string()),
        _ => "bad-op".into(),
    }
}

fn parse_one<E: EndianParse, P: ParseAt + Show>(e: E, c: Class, off: usize, data: &[u8]) -> String {
    let mut o = off;
    let r = P::parse_at(e, c, &mut o, data);
    show_pm(&r, o, |v| v.show())
}

fn iter_list<P: Show>(it: &mut impl Iterator<Item = P>) -> String {
    let mut items = vec![];
    for x in it.by_ref() {
        items.push(x.show());
    }
    format!("ok [{}]", items.join(" "))
}

fn table_ops<E: EndianParse, P: ParseAt + Show>(e: E, c: Class, data: &[u8], ops: &str) -> String {
    let t: ParsingTable<'_, E, P> = ParsingTable::new(e, c, data);
    let mut out = vec![];
    for op in ops.split(',') {
        if op == "len" {
            out.push(format!("len={}", t.len()));
        } else if op == "empty" {
            out.push(format!("empty={}", show_bool(t.is_empty())));
        } else if let Some(i) = op.strip_prefix('g') {
            let i = nat(i);
            out.push(format!("g{}={}", i, show_res(&t.get(i), |v| v.show())));
        } else if op == "iter" {
            let mut it = t.iter();
            let l = iter_list(&mut it);
            let p1 = it.next();
            let p2 = it.next();
            let p3 = it.next();
            out.push(format!(
                "iter={} post=ok {}/ok {}/ok {}",
                l,
                show_opt(&p1, |v| v.show()),
                show_opt(&p2, |v| v.show()),
                show_opt(&p3, |v| v.show())
            ));
        } else {
            out.push("bad-op".into());
        }
    }
    out.join(";")
}

macro_rules! by_type {
    ($tn:expr, $f:ident, $e:expr, $($args:expr),*) => {
        match $tn {
            "SectionHeader" => $f::<_, elf::section::SectionHeader>($e, $($args),*),
            "ProgramHeader" => $f::<_, elf::segment::ProgramHeader>($e, $($args),*),
            "Symbol" => $f::<_, elf::symbol::Symbol>($e, $($args),*),
            "Rel" => $f::<_, elf::relocation::Rel>($e, $($args),*),
            "Rela" => $f::<_, elf::relocation::Rela>($e, $($args),*),
            "Dyn" => $f::<_, elf::dynamic::Dyn>($e, $($args),*),
            "CompressionHeader" => $f::<_, elf::compression::CompressionHeader>($e, $($args),*),
            "NoteGnuAbiTag" => $f::<_, elf::note::NoteGnuAbiTag>($e, $($args),*),
            "SysVHashHeader" => $f::<_, elf::hash::SysVHashHeader>($e, $($args),*),
            "GnuHashHeader" => $f::<_, elf::hash::GnuHashHeader>($e, $($args),*),
            "VersionIndex" => $f::<_, elf::gnu_symver::VersionIndex>($e, $($args),*),
            "VerDef" => $f::<_, elf::gnu_symver::VerDef>($e, $($args),*),
            "VerDefAux" => $f::<_, elf::gnu_symver::VerDefAux>($e, $($args),*),
            "VerNeed" => $f::<_, elf::gnu_symver::VerNeed>($e, $($args),*),
            "VerNeedAux" => $f::<_, elf::gnu_symver::VerNeedAux>($e, $($args),*),
            "u32" => $f::<_, u32>($e, $($args),*),
            "u64" => $f::<_, u64>($e, $($args),*),
            _ => "bad-op".to_string(),
        }
    };
}

pub fn run_parse<E: EndianParse>(e: E, tn: &str, c: Class, off: usize, data: &[u8]) -> String {
    by_type!(tn, parse_one, e, c, off, data)
}

pub fn run_table<E: EndianParse>(e: E, tn: &str, c: Class, data: &[u8], ops: &str) -> String {
    by_type!(tn, table_ops, e, c, data, ops)
}

pub fn notes_transcript<E: EndianParse>(mut it: NoteIterator<'_, E>, b: &Bases<'_>) -> String {
    let mut items = vec![];
    for n in it.by_ref() {
        items.push(show_note(&n, b));
    }
    let p1 = it.next();
    let p2 = it.next();
    let p3 = it.next();
    format!(
        "ok [{}] post=ok {}/ok {}/ok {}",
        items.join(" "),
        show_opt(&p1, |n| show_note(n, b)),
        show_opt(&p2, |n| show_note(n, b)),
        show_opt(&p3, |n| show_note(n, b))
    )
}

pub fn iter_transcript<E: EndianParse, P: ParseAt + Show>(mut it: ParsingIterator<'_, E, P>) -> String {
    let l = iter_list(&mut it);
    let p1 = it.next();
    format!("{} post=ok {}", l, show_opt(&p1, |v| v.show()))
}

pub fn show_found(r: &Result<Option<(usize, Symbol)>, ParseError>) -> String {
    show_res(r, |o| show_opt(o, |(i, s)| format!("{} {}", i, s.show())))
}

fn aux_dump_def<E: EndianParse>(mut ai: VerDefAuxIterator<'_, E>) -> String {
    let l = iter_list(&mut ai);
    let p = ai.next();
    format!("{}+ok {}", l, show_opt(&p, |v| v.show()))
}
fn aux_dump_need<E: EndianParse>(mut ai: VerNeedAuxIterator<'_, E>) -> String {
    let l = iter_list(&mut ai);
    let p = ai.next();
    format!("{}+ok {}", l, show_opt(&p, |v| v.show()))
}

pub fn run_verit<E: EndianParse>(kind: &str, e: E, c: Class, count: u64, off: usize, data: &[u8]) -> String {
    match kind {
        "def" => {
            let mut it = VerDefIterator::new(e, c, count, off, data);
            let mut items = vec![];
            for (vd, ai) in it.by_ref() {
                items.push(format!("{}:{}", vd.show(), aux_dump_def(ai)));
            }
            let p = it.next();
            format!("ok [{}] post=ok {}", items.join(" "), show_opt(&p, |x| x.0.show()))
        }
        "need" => {
            let mut it = VerNeedIterator::new(e, c, count, off, data);
            let mut items = vec![];
            for (vn, ai) in it.by_ref() {
                items.push(format!("{}:{}", vn.show(), aux_dump_need(ai)));
            }
            let p = it.next();
            format!("ok [{}] post=ok {}", items.join(" "), show_opt(&p, |x| x.0.show()))
        }
        "defaux" => {
            let mut ai = VerDefAuxIterator::new(e, c, count as u16, off, data);
            let l = iter_list(&mut ai);
            let p1 = ai.next();
            let p2 = ai.next();
            format!("{} post=ok {}/ok {}", l, show_opt(&p1, |v| v.show()), show_opt(&p2, |v| v.show()))
        }
        "needaux" => {
            let mut ai = VerNeedAuxIterator::new(e, c, count as u16, off, data);
            let l = iter_list(&mut ai);
            let p1 = ai.next();
            let p2 = ai.next();
            format!("{} post=ok {}/ok {}", l, show_opt(&p1, |v| v.show()), show_opt(&p2, |v| v.show()))
        }
        _ => "bad-op".into(),
    }
}

pub fn symver_queries<E: EndianParse>(t: &SymbolVersionTable<'_, E>, idxs: &str, b: &Bases<'_>) -> String {
    let mut out = vec![];
    if idxs == "-" || idxs.is_empty() {
        return String::new();
    }
    for i in idxs.split('.') {
        let i = nat(i);
        let r = t.get_requirement(i);
        out.push(format!(
            "r{}={}",
            i,
            show_res(&r, |o| show_opt(o, |q| format!(
                "req({},{},{},{},{})",
                b.loc(q.file.as_bytes()),
                b.loc(q.name.as_bytes()),
                q.hash,
                q.flags,
                show_bool(q.hidden)
            )))
        ));
        let d = t.get_definition(i);
        let ds = match d {
            Ok(Some(q)) => {
                let hash = q.hash;
                let flags = q.flags;
                let hidden = q.hidden;
                let names: Vec<String> =
                    q.names.map(|r| show_res(&r, |s| b.loc(s.as_bytes()))).collect();
                format!("ok some def({},{},{},names=ok [{}])", hash, flags, show_bool(hidden), names.join(" "))
            }
            Ok(None) => "ok none".into(),
            Err(e) => format!("err {}", show_err(&e)),
        };
        out.push(format!("d{}={}", i, ds));
    }
    out.join(";")
}

fn table_digest<E: EndianParse, P: ParseAt + Show>(t: &ParsingTable<'_, E, P>) -> String {
    // location of a table's bytes is not observable through the public API: digest the entries
    let mut it = t.iter();
    let l = iter_list(&mut it);
    format!("n={} h={}", t.len(), fnv(&l))
}

fn show_strtab(t: &StringTable<'_>, b: &Bases<'_>) -> String {
    format!(
        "strtab({}/{})",
        show_res(&t.get_raw(0), |s| b.loc(s)),
        show_res(&t.get_raw(1), |s| b.loc(s))
    )
}

fn file_query<E: EndianParse>(f: &ElfBytes<'_, E>, q: &str, b: &Bases<'_>) -> String {
    let kind = q.chars().next().unwrap_or('?');
    let body = &q[kind.len_utf8().min(q.len())..];
    match kind {
        'T' => format!(
            "T={}",
            show_res(&f.section_headers_with_strtab(), |(s, t)| format!(
                "{},{}",
                show_opt(s, |s| table_digest(s)),
                show_opt(t, |t| show_strtab(t, b))
            ))
        ),
        'S' => {
            let i = nat(body);
            match f.section_headers() {
                None => format!("S{}=noshdrs", i),
                Some(shdrs) => match shdrs.get(i) {
                    Ok(sh) => format!(
                        "S{}={} data={} strtab={} rels={} relas={} notes={}",
                        i,
                        sh.show(),
                        show_res(&f.section_data(&sh), |(d, c)| format!(
                            "{},{}",
                            b.loc(d),
                            show_opt(c, |c| c.show())
                        )),
                        show_res(&f.section_data_as_strtab(&sh), |t| show_strtab(t, b)),
                        match f.section_data_as_rels(&sh) {
                            Ok(it) => format!("ok {}", iter_transcript(it)),
                            Err(e) => format!("err {}", show_err(&e)),
                        },
                        match f.section_data_as_relas(&sh) {
                            Ok(it) => format!("ok {}", iter_transcript(it)),
                            Err(e) => format!("err {}", show_err(&e)),
                        },
                        match f.section_data_as_notes(&sh) {
                            Ok(it) => format!("ok {}", notes_transcript(it, b)),
                            Err(e) => format!("err {}", show_err(&e)),
                        },
                    ),
                    Err(e) => format!("S{}=err {}", i, show_err(&e)),
                },
            }
        }
        'P' => {
            let i = nat(body);
            match f.segments() {
                None => format!("P{}=nophdrs", i),
                Some(phdrs) => match phdrs.get(i) {
                    Ok(ph) => format!(
                        "P{}={} data={} notes={}",
                        i,
                        ph.show(),
                        show_res(&f.segment_data(&ph), |d| b.loc(d)),
                        match f.segment_data_as_notes(&ph) {
                            Ok(it) => format!("ok {}", notes_transcript(it, b)),
                            Err(e) => format!("err {}", show_err(&e)),
                        },
                    ),
                    Err(e) => format!("P{}=err {}", i, show_err(&e)),
                },
            }
        }
        'N' => {
            let name = unhex(body);
            match std::str::from_utf8(&name) {
                Ok(n) => format!(
                    "N={}",
                    show_res(&f.section_header_by_name(n), |o| show_opt(o, |s| s.show()))
                ),
                Err(_) => "N=not-utf8".into(),
            }
        }
        'Y' => format!(
            "Y={}",
            show_res(&f.symbol_table(), |o| show_opt(o, |(t, s)| format!(
                "{},{}",
                table_digest(t),
                show_strtab(s, b)
            )))
        ),
        'D' => format!(
            "D={}",
            show_res(&f.dynamic_symbol_table(), |o| show_opt(o, |(t, s)| format!(
                "{},{}",
                table_digest(t),
                show_strtab(s, b)
            )))
        ),
        'd' => format!("d={}", show_res(&f.dynamic(), |o| show_opt(o, |t| table_digest(t)))),
        'C' => format!(
            "C={}",
            show_res(&f.find_common_data(), |c| format!(
                "symtab={},{} dynsyms={},{} dynamic={} sysv={} gnu={}",
                show_opt(&c.symtab, |t| table_digest(t)),
                show_opt(&c.symtab_strs, |t| show_strtab(t, b)),
                show_opt(&c.dynsyms, |t| table_digest(t)),
                show_opt(&c.dynsyms_strs, |t| show_strtab(t, b)),
                show_opt(&c.dynamic, |t| table_digest(t)),
                show_opt(&c.sysv_hash, |_| "y".to_string()),
                show_opt(&c.gnu_hash, |t| t.hdr.show()),
            ))
        ),
        'H' => {
            let name = unhex(body);
            match f.find_common_data() {
                Ok(c) => {
                    let sysv = match (&c.sysv_hash, &c.dynsyms, &c.dynsyms_strs) {
                        (Some(t), Some(syms), Some(strs)) => show_found(&t.find(&name, syms, strs)),
                        _ => "n/a".into(),
                    };
                    let gnu = match (&c.gnu_hash, &c.dynsyms, &c.dynsyms_strs) {
                        (Some(t), Some(syms), Some(strs)) => show_found(&t.find(&name, syms, strs)),
                        _ => "n/a".into(),
                    };
                    format!("H=sysv:{} gnu:{}", sysv, gnu)
                }
                Err(e) => format!("H=err {}", show_err(&e)),
            }
        }
        'V' => format!(
            "V={}",
            show_res(&f.symbol_version_table(), |o| show_opt(o, |t| symver_queries(t, body, b)))
        ),
        _ => "bad-query".into(),
    }
}

pub fn run_file<E: EndianParse>(queries: &str, data: &[u8]) -> String {
    let b = Bases(vec![data]);
    match ElfBytes::<E>::minimal_parse(data) {
        Ok(f) => {
            let head = format!(
                "open=ok {} shdrs={} phdrs={}",
                show_ehdr(&f.ehdr),
                show_opt(&f.section_headers(), |t| table_digest(t)),
                show_opt(&f.segments(), |t| table_digest(t))
            );
            if queries == "-" {
                head
            } else {
                let qs: Vec<String> = queries.split(',').map(|q| file_query(&f, q, &b)).collect();
                format!("{};{}", head, qs.join(";"))
            }
        }
        Err(e) => format!("open=err {}", show_err(&e)),
    }
}

pub fn run_ident<E: EndianParse>(data: &[u8]) -> String {
    show_res(&elf::file::parse_ident::<E>(data), |(e, c, o, a)| {
        format!("{},{},{},{}", show_bool(e.is_little()), show_class(*c), o, a)
    })
}

/// the stand-alone file-header parsers: `parse_ident` on the first 16 bytes, `FileHeader::parse_tail` on the rest
pub fn run_ehdr<E: EndianParse>(data: &[u8]) -> String {
    let (id, rest) = data.split_at(data.len().min(16));
    match elf::file::parse_ident::<E>(id) {
        Err(e) => format!("err {}", crate::show::show_err(&e)),
        Ok(ident) => show_res(&elf::file::FileHeader::parse_tail(ident, rest), |h| show_ehdr(h)),
    }
}

pub fn with_spec(spec: &str, f: &dyn Fn(&str) -> String) -> String {
    f(spec)
}

macro_rules! dispatch_spec {
    ($spec:expr, $f:ident, $($args:expr),*) => {
        match $spec {
            "little" => $f::<LittleEndian>($($args),*),
            "big" => $f::<BigEndian>($($args),*),
            "native" => $f::<NativeEndian>($($args),*),
            _ => $f::<AnyEndian>($($args),*),
        }
    };
}

fn eidata<E: EndianParse>(v: u8) -> String {
    show_res(&E::from_ei_data(v), |e| show_bool(e.is_little()).to_string())
}

fn eidata_flags<E: EndianParse>(v: u8) -> String {
    match E::from_ei_data(v) { Ok(e) => format!("{}{}", e.is_little() as u8, e.is_big() as u8), Err(_) => "-".into() }
}

/// `is_little()` / `is_big()` of the spec value `from_ei_data` produced ("10", "01", or "-" when it was refused)
pub fn eidata_flags_spec(spec: &str, v: u8) -> String {
    dispatch_spec!(spec, eidata_flags, v)
}

/// Execute one request line on the implementation.
pub fn run_line(line: &str) -> String {
    let t: Vec<&str> = line.trim().split(' ').collect();
    match t.as_slice() {
        ["int", le, ty, off, hexd] => run_int(any_endian(*le == "1"), ty, nat(off), &unhex(hexd)),
        ["parse", tn, le, cls, off, hexd] => {
            run_parse(any_endian(*le == "1"), tn, class_of(cls), nat(off), &unhex(hexd))
        }
        ["table", tn, le, cls, ops, hexd] => {
            run_table(any_endian(*le == "1"), tn, class_of(cls), &unhex(hexd), ops)
        }
        ["strtab", off, hexd] => {
            let d = unhex(hexd);
            let b = Bases(vec![&d]);
            let t = StringTable::new(&d);
            format!(
                "raw={};str={}",
                show_res(&t.get_raw(nat(off)), |s| b.loc(s)),
                show_res(&t.get(nat(off)), |s| b.loc(s.as_bytes()))
            )
        }
        ["utf8", hexd] => show_bool(std::str::from_utf8(&unhex(hexd)).is_ok()).to_string(),
        ["acc", "versym", v] => {
            let vi = elf::gnu_symver::VersionIndex(nat(v) as u16);
            format!(
                "{},{},{},{}",
                vi.index(),
                show_bool(vi.is_local()),
                show_bool(vi.is_global()),
                show_bool(vi.is_hidden())
            )
        }
        ["acc", "sym", info, other, shndx] => {
            let s = Symbol {
                st_name: 0,
                st_shndx: nat(shndx) as u16,
                st_info: nat(info) as u8,
                st_other: nat(other) as u8,
                st_value: 0,
                st_size: 0,
            };
            format!("{},{},{},{}", show_bool(s.is_undefined()), s.st_symtype(), s.st_bind(), s.st_vis())
        }
        ["acc", "symf", name, shndx, info, other, value, size] => {
            let s = Symbol {
                st_name: nat(name) as u32,
                st_shndx: nat(shndx) as u16,
                st_info: nat(info) as u8,
                st_other: nat(other) as u8,
                st_value: nat(value) as u64,
                st_size: nat(size) as u64,
            };
            format!("{},{},{},{}", show_bool(s.is_undefined()), s.st_symtype(), s.st_bind(), s.st_vis())
        }
        ["ident", sp, hexd] => {
            let d = unhex(hexd);
            dispatch_spec!(*sp, run_ident, &d)
        }
        ["ehdr", sp, hexd] => {
            let d = unhex(hexd);
            dispatch_spec!(*sp, run_ehdr, &d)
        }
        ["eidata", sp, v] => {
            let v = nat(v) as u8;
            dispatch_spec!(*sp, eidata, v)
        }
        ["notes", le, cls, align, hexd] => {
            let d = unhex(hexd);
            let b = Bases(vec![&d]);
            notes_transcript(NoteIterator::new(any_endian(*le == "1"), class_of(cls), nat(align), &d), &b)
        }
        ["hashfn", "sysv", hexd] => elf::hash::sysv_hash(&unhex(hexd)).to_string(),
        ["hashfn", "gnu", hexd] => elf::hash::gnu_hash(&unhex(hexd)).to_string(),
        ["sysv", le, cls, symhex, strhex, namehex, hashhex] => {
            let e = any_endian(*le == "1");
            let c = class_of(cls);
            let (sym, strs, name, hash) = (unhex(symhex), unhex(strhex), unhex(namehex), unhex(hashhex));
            match SysVHashTable::new(e, c, &hash) {
                Ok(t) => show_found(&t.find(&name, &SymbolTable::new(e, c, &sym), &StringTable::new(&strs))),
                Err(er) => format!("new:err {}", show_err(&er)),
            }
        }
        ["gnu", le, cls, symhex, strhex, namehex, hashhex] => {
            let e = any_endian(*le == "1");
            let c = class_of(cls);
            let (sym, strs, name, hash) = (unhex(symhex), unhex(strhex), unhex(namehex), unhex(hashhex));
            match GnuHashTable::new(e, c, &hash) {
                Ok(t) => show_found(&t.find(&name, &SymbolTable::new(e, c, &sym), &StringTable::new(&strs))),
                Err(er) => format!("new:err {}", show_err(&er)),
            }
        }
        [kind @ ("sysvm" | "gnum"), le, cls, symhex, strhex, nameshex, hashhex] => {
            // several lookups on ONE table value (and one symbol/string table): a lookup is a pure function of its arguments
            let e = any_endian(*le == "1");
            let c = class_of(cls);
            let (sym, strs, hash) = (unhex(symhex), unhex(strhex), unhex(hashhex));
            let names: Vec<Vec<u8>> = nameshex.split('.').map(unhex).collect();
            let (symtab, strtab) = (SymbolTable::new(e, c, &sym), StringTable::new(&strs));
            let mut out = vec![];
            if *kind == "sysvm" {
                match SysVHashTable::new(e, c, &hash) {
                    Ok(t) => for n in &names { out.push(show_found(&t.find(n, &symtab, &strtab))); },
                    Err(er) => out.push(format!("new:err {}", show_err(&er))),
                }
            } else {
                match GnuHashTable::new(e, c, &hash) {
                    Ok(t) => for n in &names { out.push(show_found(&t.find(n, &symtab, &strtab))); },
                    Err(er) => out.push(format!("new:err {}", show_err(&er))),
                }
            }
            out.join(" | ")
        }
        ["verit", kind, le, cls, count, off, hexd] => run_verit(
            kind,
            any_endian(*le == "1"),
            class_of(cls),
            count.parse::<u64>().unwrap_or(0),
            nat(off),
            &unhex(hexd),
        ),
        ["symver", le, cls, idxs, needcnt, defcnt, versymhex, needhex, needstrhex, defhex, defstrhex] => {
            let e = any_endian(*le == "1");
            let c = class_of(cls);
            let (vs, nd, nds, df, dfs) =
                (unhex(versymhex), unhex(needhex), unhex(needstrhex), unhex(defhex), unhex(defstrhex));
            let b = Bases(vec![&nds, &dfs]);
            let needs = if *needcnt == "-" {
                None
            } else {
                Some((
                    VerNeedIterator::new(e, c, needcnt.parse::<u64>().unwrap_or(0), 0, &nd),
                    StringTable::new(&nds),
                ))
            };
            let defs = if *defcnt == "-" {
                None
            } else {
                Some((
                    VerDefIterator::new(e, c, defcnt.parse::<u64>().unwrap_or(0), 0, &df),
                    StringTable::new(&dfs),
                ))
            };
            let t = SymbolVersionTable::new(VersionIndexTable::new(e, c, &vs), needs, defs);
            symver_queries(&t, idxs, &b)
        }
        ["prefix", sp, queries, k, hexd] => {
            let d = unhex(hexd);
            let k = nat(k).min(d.len());
            let d = d[..k].to_vec();
            dispatch_spec!(*sp, run_file, queries, &d)
        }
        ["sprefix", sp, ops, k, hexd] => {
            let d = unhex(hexd);
            let k = nat(k).min(d.len());
            crate::stream::run_stream(sp, "-", ops, &d[..k]).reply
        }
        ["stream", sp, sched, ops, hexd] => crate::stream::run_stream(sp, sched, ops, &unhex(hexd)).reply,
        ["file", sp, queries, hexd] => {
            let d = unhex(hexd);
            dispatch_spec!(*sp, run_file, queries, &d)
        }
        _ => "bad-op".into(),
    }
}

#[allow(dead_code)]
pub fn abi_marker() -> u8 {
    abi::ELFCLASS32
}
