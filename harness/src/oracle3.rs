//! Oracles for the stream parser: equivalence with the slice parser (C07), bounded memory and
//! lazy I/O (C08), fault handling (C17), table location (C05, stream side).
use crate::show::*;
use crate::stream::*;
use elf::abi;
use elf::endian::AnyEndian;
use elf::file::Class;
use elf::ElfBytes;

type V = Result<(), String>;

fn nat(s: &str) -> usize {
    s.parse::<usize>().unwrap_or(0)
}

/// The slice parser's answer to a stream op, rendered by content (same format as `stream_op`).
fn bytes_op(f: &ElfBytes<'_, AnyEndian>, q: &str, file: &[u8]) -> String {
    let kind = q.chars().next().unwrap_or('?');
    let body = &q[kind.len_utf8().min(q.len())..];
    let range_of = |off: u64, size: u64| -> Option<&[u8]> {
        let s = off as usize;
        let e = s.checked_add(size as usize)?;
        file.get(s..e)
    };
    match kind {
        'T' => {
            let r = f.section_headers_with_strtab();
            format!(
                "T={}",
                show_res(&r, |(sh, t)| show_opt(t, |t| {
                    let idx = if f.ehdr.e_shstrndx == 0xffff {
                        sh.and_then(|s| s.get(0).ok()).map(|x| x.sh_link as usize).unwrap_or(0)
                    } else {
                        f.ehdr.e_shstrndx as usize
                    };
                    let whole = sh.and_then(|s| s.get(idx).ok()).and_then(|x| range_of(x.sh_offset, x.sh_size));
                    show_strtab_c(t, whole)
                }))
            )
        }
        'S' => {
            let i = nat(body);
            let sh = match f.section_headers().and_then(|t| t.get(i).ok()) {
                Some(sh) => sh,
                None => return format!("S{}=oob", i),
            };
            let d = show_res(&f.section_data(&sh), |(d, c)| format!("{},{}", content(d), show_opt(c, |c| c.show())));
            let whole = range_of(sh.sh_offset, sh.sh_size);
            let st = show_res(&f.section_data_as_strtab(&sh), |t| show_strtab_c(t, whole));
            let rl = match f.section_data_as_rels(&sh) {
                Ok(it) => { let v: Vec<String> = it.map(|x| x.show()).collect(); format!("ok ok [{}] post=ok none", v.join(" ")) }
                Err(e) => format!("err {}", show_err(&e)),
            };
            let ra = match f.section_data_as_relas(&sh) {
                Ok(it) => { let v: Vec<String> = it.map(|x| x.show()).collect(); format!("ok ok [{}] post=ok none", v.join(" ")) }
                Err(e) => format!("err {}", show_err(&e)),
            };
            let nt = match f.section_data_as_notes(&sh) {
                Ok(it) => format!("ok {}", notes_transcript_c(it)),
                Err(e) => format!("err {}", show_err(&e)),
            };
            format!("S{}={} data={} strtab={} rels={} relas={} notes={}", i, sh.show(), d, st, rl, ra, nt)
        }
        'P' => {
            let i = nat(body);
            let ph = match f.segments().and_then(|t| t.get(i).ok()) {
                Some(ph) => ph,
                None => return format!("P{}=oob", i),
            };
            let nt = match f.segment_data_as_notes(&ph) {
                Ok(it) => format!("ok {}", notes_transcript_c(it)),
                Err(e) => format!("err {}", show_err(&e)),
            };
            format!("P{}={} notes={}", i, ph.show(), nt)
        }
        'N' => {
            let name = unhex(body);
            match std::str::from_utf8(&name) {
                Ok(n) => format!("N={}", show_res(&f.section_header_by_name(n), |o| show_opt(o, |x| x.show()))),
                Err(_) => "N=not-utf8".into(),
            }
        }
        'Y' | 'D' => {
            let ty = if kind == 'Y' { abi::SHT_SYMTAB } else { abi::SHT_DYNSYM };
            let whole = f.section_headers().and_then(|shdrs| {
                shdrs.iter().find(|x| x.sh_type == ty).and_then(|sym| shdrs.get(sym.sh_link as usize).ok())
            }).and_then(|st| range_of(st.sh_offset, st.sh_size));
            let r = if kind == 'Y' { f.symbol_table() } else { f.dynamic_symbol_table() };
            format!("{}={}", kind, show_res(&r, |o| show_opt(o, |(t, st)| format!("{},{}", table_digest(t), show_strtab_c(st, whole)))))
        }
        'd' => format!("d={}", show_res(&f.dynamic(), |o| show_opt(o, |t| table_digest(t)))),
        'V' => format!("V={}", show_res(&f.symbol_version_table(), |o| show_opt(o, |t| symver_queries_c(t, body)))),
        _ => "bad-query".into(),
    }
}

fn status(piece: &str) -> &str {
    // piece looks like `key=ok …` / `key=err …`
    match piece.split_once('=') {
        Some((_, v)) if v.starts_with("ok") => "ok",
        Some((_, v)) if v.starts_with("err") => "err",
        _ => "other",
    }
}

fn pieces(s: &str) -> Vec<String> {
    let keys = [" data=", " strtab=", " rels=", " relas=", " notes="];
    let mut cuts = vec![0usize];
    for k in keys {
        if let Some(p) = s.find(k) {
            cuts.push(p + 1);
        }
    }
    cuts.sort();
    let mut out = vec![];
    for (i, c) in cuts.iter().enumerate() {
        let e = if i + 1 < cuts.len() { cuts[i + 1] } else { s.len() };
        out.push(s[*c..e].trim_end().to_string());
    }
    out
}

/// C07: stream ≈ slice, for legal readers and any history
fn oracle_stream(spec: &str, sched: &str, ops: &str, file: &[u8], ann: &str) -> V {
    let run = run_stream(spec, sched, ops, file);
    let parts: Vec<&str> = run.reply.split(';').collect();
    // C08: bounded allocation — no single allocation exceeds a small multiple of the stream length
    let bound = 8 * file.len() + 8192;
    if run.max_alloc > bound {
        return Err(format!("C08: a single allocation of {} bytes on a {}-byte stream (bound {})", run.max_alloc, file.len(), bound));
    }
    if run.reply.contains("panic") {
        return Err("C08: the stream parser panicked".into());
    }
    let legal = crate::stream::split_init_pos(sched).1.split(',').all(|t| t == "-" || t == "o" || t == "i" || t.starts_with('s'));
    // C10: an identification defect (magic, version, class, byte order vs the spec) is reported through the
    // stream parser as exactly that error, with the bytes found — whatever follows the sixteen bytes
    if legal && file.len() >= 16 && ["any", "little", "big", "native"].contains(&spec) {
        let want = crate::oracle::ident_expect(spec, &file[..16]);
        let named = ["err BadMagic", "err UnsupportedVersion", "err UnsupportedElfClass", "err UnsupportedElfEndianness"];
        if named.iter().any(|k| want.starts_with(k)) && parts[0] != format!("open={}", want) {
            return Err(format!("C10: through the stream parser the identification defect is reported as `{}`, expected `open={}`", parts[0], want));
        }
    }
    if spec != "any" {
        return Ok(());
    }
    let slice = ElfBytes::<AnyEndian>::minimal_parse(file);
    // C08: lazy reads — everything read is a range the headers designate
    if legal {
        if let Ok(f) = &slice {
            let mut allowed: Vec<(u64, u64)> = vec![(0, 16)];
            let (tail, shent, phent) = match f.ehdr.class { Class::ELF32 => (36u64, 40u64, 32u64), Class::ELF64 => (48, 64, 56) };
            allowed.push((16, tail));
            allowed.push((f.ehdr.e_shoff, shent));
            if let Some(t) = f.section_headers() {
                allowed.push((f.ehdr.e_shoff, t.len() as u64 * shent));
                for sh in t.iter() { allowed.push((sh.sh_offset, sh.sh_size)); }
            }
            if let Some(t) = f.segments() {
                allowed.push((f.ehdr.e_phoff, t.len() as u64 * phent));
                for ph in t.iter() { allowed.push((ph.p_offset, ph.p_filesz)); }
            }
            if let Some(io) = parts.iter().find(|p| p.starts_with("io=")) {
                for item in io[3..].split(',') {
                    if item == "end" || item.is_empty() { continue; }
                    if let Some((p, b)) = item.split_once(':') {
                        let (p, b): (u64, u64) = (p.parse().unwrap_or(0), b.parse().unwrap_or(0));
                        if b > 0 && !allowed.iter().any(|(ap, al)| *ap == p && *al == b) {
                            return Err(format!("C08: read of {} bytes at {} is not a range the headers designate", b, p));
                        }
                    }
                }
            }
        }
    }
    if !legal {
        return Ok(());
    }
    // C07 open equivalence
    let open_ok = parts[0].starts_with("open=ok");
    match (&slice, open_ok) {
        (Ok(_), false) => return Err(format!("C05: slice opens but stream fails: {}", parts[0])),
        (Err(_), true) => return Err("C05: stream opens but slice fails".into()),
        (Err(_), false) => return Ok(()),
        _ => {}
    }
    let f = slice.unwrap();
    let want_head = format!(
        "open=ok {} shdrs={} phdrs={}",
        show_ehdr(&f.ehdr),
        match f.section_headers() { Some(t) => table_digest(&t), None => list_digest::<elf::section::SectionHeader>(&[]) },
        match f.segments() { Some(t) => table_digest(&t), None => list_digest::<elf::segment::ProgramHeader>(&[]) },
    );
    if parts[0] != want_head {
        return Err(format!("C05: headers differ: stream `{}` slice `{}`", &parts[0][..parts[0].len().min(200)], &want_head[..want_head.len().min(200)]));
    }
    // query-level clause: scoped to files whose section table is absent or non-empty
    if let Some(t) = f.section_headers() {
        if t.is_empty() { return Ok(()); }
    }
    let _ = ann;
    if ops == "-" { return Ok(()); }
    // re-split the stream reply per op (V contains ';')
    let mut idx = 1usize;
    for q in ops.split(',') {
        let want = bytes_op(&f, q, file);
        let nparts = want.split(';').count();
        // stream's reply for this op spans the same number of ';' parts when ok; when it is an error it is one part
        let got_first = parts.get(idx).copied().unwrap_or("");
        let got: String = if q.starts_with('V') && got_first.starts_with("V=ok some") {
            let g = parts[idx..(idx + nparts).min(parts.len())].join(";");
            idx += nparts;
            g
        } else {
            idx += 1;
            got_first.to_string()
        };
        let kind = q.chars().next().unwrap_or('?');
        // C05: a table whose sh_entsize the slice parser refuses is refused by the stream parser too, whatever is cached
        // (symbol tables and the version-index table; the stream parser's dynamic() makes no entry-size check — the
        // property states that check for the slice parser only)
        if matches!(kind, 'Y' | 'D' | 'V') && want.contains("err BadEntsize") && !want.contains("=ok") && status(&got) == "ok" {
            return Err(format!("C05: `{}`: the stream parser accepts a table whose sh_entsize is wrong: stream `{}` slice `{}`", q, &got[..got.len().min(120)], &want[..want.len().min(120)]));
        }
        // compressed sections are outside the query-level clause
        if kind == 'S' {
            let i = nat(&q[1..]);
            if let Some(sh) = f.section_headers().and_then(|t| t.get(i).ok()) {
                if sh.sh_flags & abi::SHF_COMPRESSED as u64 != 0 { continue; }
            }
        }
        if (kind == 'T' || kind == 'N' || kind == 'Y' || kind == 'D' || kind == 'V' || kind == 'd') && involves_compressed(&f, kind) { continue; }
        if want == got { continue; }
        let exact = matches!(kind, 'Y' | 'D' | 'V' | 'P');
        // the extended-index escape for the section-name string table is C05's clause
        let base_tag = if kind == 'T' && f.ehdr.e_shstrndx == abi::SHN_XINDEX { "C05" } else if kind == 'Y' || kind == 'D' { "C09" } else { "C07" };
        let (pw, pg) = (pieces(&want), pieces(&got));
        if pw.len() != pg.len() {
            let m = format!("{}: `{}`: stream `{}` vs slice `{}`", base_tag, q, &got[..got.len().min(200)], &want[..want.len().min(200)]);
            if kind == 'V' { return Err(format!("{} || FAIL C13{}", m, &m[m.find(':').unwrap_or(0)..])); }
            return Err(m);
        }
        // every differing piece of this query is reported, each under the property it belongs to
        let mut fails: Vec<String> = vec![];
        for (w, g) in pw.iter().zip(&pg) {
            if w == g { continue; }
            // relocation iterators and symbol tables are C09's subject (entries = whole entries of the section's
            // bytes), the other typed views C20's; everything else is C07 proper (C07's check reports all of them)
            // the entry-size check is C05's clause, through either parser
            let tag = if w.contains("BadEntsize") || g.contains("BadEntsize") { "C05" }
                      else if w.starts_with("rels=") || w.starts_with("relas=") { "C09" }
                      else if w.starts_with("notes=") || w.starts_with("strtab=") { "C20" } else { base_tag };
            let (sw, sg) = (status(w), status(g));
            // notes handed out through the stream parser are C14's subject as well (same records as the slice parser,
            // whose iteration C14's own oracle compares with the reference walk)
            if w.contains("notes=") && sw == "ok" && sg == "ok" {
                fails.push(format!("C14: `{}`: notes through the stream parser differ from the notes of the same bytes: stream `{}` slice `{}`", q, &g[..g.len().min(160)], &w[..w.len().min(160)]));
            }
            // …and string tables handed out through the stream parser (strtab views, T, the tables linked to Y/D) are C15's
            if (w.starts_with("strtab=") || kind == 'T') && sw == "ok" && sg == "ok" {
                fails.push(format!("C15: `{}`: a string table through the stream parser differs from the table of the same bytes: stream `{}` slice `{}`", q, &g[..g.len().min(160)], &w[..w.len().min(160)]));
            }
            let data_piece = w.starts_with("data=");
            if sw == "ok" && sg == "ok" {
                fails.push(format!("{}: `{}`: both succeed with different content: stream `{}` slice `{}`", tag, q, &g[..g.len().min(160)], &w[..w.len().min(160)]));
            } else if sw == "ok" && sg != "ok" {
                fails.push(format!("{}: `{}`: slice succeeds, stream fails: `{}`", tag, q, &g[..g.len().min(160)]));
            } else if (exact || data_piece) && sw != sg {
                fails.push(format!("{}: `{}`: success/failure must coincide: stream `{}` slice `{}`", tag, q, &g[..g.len().min(160)], &w[..w.len().min(160)]));
            }
        }
        // the version queries through the stream parser are also C13's subject (wiring of the three sections), when
        // the file has one section of each kind
        if kind == 'V' && !fails.is_empty() {
            let one = |t: u32| f.section_headers().map(|sh| sh.iter().filter(|s| s.sh_type == t).count() <= 1).unwrap_or(true);
            if one(abi::SHT_GNU_VERSYM) && one(abi::SHT_GNU_VERNEED) && one(abi::SHT_GNU_VERDEF) {
                let extra: Vec<String> = fails.iter().map(|m| format!("C13:{}", &m[m.find(':').map(|i| i + 1).unwrap_or(0)..])).collect();
                fails.extend(extra);
            }
        }
        if !fails.is_empty() {
            return Err(fails.join(" || FAIL "));
        }
    }
    Ok(())
}

/// does the whole-file query `kind` touch a section flagged SHF_COMPRESSED (a section of the type it looks for, or the
/// section one of those links to)?  Only then is the query outside C07's query-level clause.
fn involves_compressed(f: &ElfBytes<'_, AnyEndian>, kind: char) -> bool {
    let t = match f.section_headers() { Some(t) => t, None => return false };
    let compressed = |s: &elf::section::SectionHeader| s.sh_flags & abi::SHF_COMPRESSED as u64 != 0;
    let types: &[u32] = match kind {
        'Y' => &[abi::SHT_SYMTAB],
        'D' => &[abi::SHT_DYNSYM],
        'd' => &[abi::SHT_DYNAMIC],
        'V' => &[abi::SHT_GNU_VERSYM, abi::SHT_GNU_VERNEED, abi::SHT_GNU_VERDEF],
        _ => &[],
    };
    if kind == 'T' || kind == 'N' {
        let idx = if f.ehdr.e_shstrndx == abi::SHN_XINDEX { t.get(0).map(|s| s.sh_link as usize).unwrap_or(0) } else { f.ehdr.e_shstrndx as usize };
        return t.get(idx).map(|s| compressed(&s)).unwrap_or(false);
    }
    t.iter().filter(|s| types.contains(&s.sh_type)).any(|s| {
        compressed(&s) || t.get(s.sh_link as usize).map(|l| compressed(&l)).unwrap_or(false)
    })
}

/// C17: a fault surfaces as an error of the call it hits and leaves no residue
fn oracle_streamfault(spec: &str, sched: &str, ops: &str, file: &[u8]) -> V {
    let clean = run_stream(spec, "-", ops, file);
    let faulty = run_stream(spec, sched, ops, file);
    if faulty.reply.contains("panic") {
        return Err("C17: panic under an I/O fault".into());
    }
    let cparts: Vec<&str> = clean.reply.split(';').collect();
    let fparts: Vec<&str> = faulty.reply.split(';').collect();
    let hard = crate::stream::split_init_pos(sched).1.split(',').any(|t| t.starts_with('f') || t == "e");
    // "that call returns an error": an operation during which a seek/read failed (any error kind but Interrupted) or hit a
    // premature end of stream must not report success
    if let Some(m) = &faulty.ok_despite_failed_io {
        return Err(format!("C17: {}", m));
    }
    if !fparts[0].starts_with("open=ok") {
        // open failed: legitimate only if a hard fault was injected or the clean open fails the same way
        if !hard && fparts[0] != cparts[0] {
            return Err(format!("C17: open differs under a legal schedule: `{}` vs `{}`", fparts[0], cparts[0]));
        }
        return Ok(());
    }
    if fparts[0] != cparts[0] {
        return Err(format!("C17: open succeeded under faults with different headers: `{}` vs `{}`", &fparts[0][..fparts[0].len().min(160)], &cparts[0][..cparts[0].len().min(160)]));
    }
    // per op (same segmentation as in oracle_stream): error or exactly the fault-free answer
    let mut ci = 1usize;
    let mut fi = 1usize;
    for q in ops.split(',') {
        if ops == "-" { break; }
        let take = |parts: &Vec<&str>, i: &mut usize| -> String {
            let first = parts.get(*i).copied().unwrap_or("").to_string();
            if q.starts_with('V') && first.starts_with("V=ok some") {
                let n = if q.len() > 1 { q[1..].split('.').count() * 2 } else { 1 };
                let g = parts[*i..(*i + n).min(parts.len())].join(";");
                *i += n;
                g
            } else {
                *i += 1;
                first
            }
        };
        let c = take(&cparts, &mut ci);
        let f = take(&fparts, &mut fi);
        if c == f { continue; }
        let (pc, pf) = (pieces(&c), pieces(&f));
        if pc.len() != pf.len() {
            if status(&f) == "err" { continue; }
            return Err(format!("C17: `{}` after a fault: `{}` vs fault-free `{}`", q, &f[..f.len().min(160)], &c[..c.len().min(160)]));
        }
        for (x, y) in pc.iter().zip(&pf) {
            if x != y && status(y) != "err" {
                return Err(format!("C17: `{}`: answer under faults `{}` differs from the fault-free answer `{}`", q, &y[..y.len().min(160)], &x[..x.len().min(160)]));
            }
        }
    }
    Ok(())
}

/// C18 for the stream parser: every query on a truncated stream is an error or the full stream's answer
fn oracle_sprefix(ops: &str, k: usize, file: &[u8], ann: &str) -> V {
    let k = k.min(file.len());
    let what = if ann == "suffix" { "appending bytes" } else { "truncation" };
    let a = run_stream("any", "-", ops, &file[..k]);
    let b = run_stream("any", "-", ops, file);
    let pa: Vec<&str> = a.reply.split(';').collect();
    let pb: Vec<&str> = b.reply.split(';').collect();
    if !pa[0].starts_with("open=ok") {
        return Ok(());
    }
    if pa[0] != pb[0] {
        return Err(format!("C18: {} changed what open_stream returns: `{}` vs `{}`", what, &pa[0][..pa[0].len().min(160)], &pb[0][..pb[0].len().min(160)]));
    }
    let mut ia = 1usize;
    let mut ib = 1usize;
    for q in ops.split(',') {
        if ops == "-" { break; }
        let take = |parts: &Vec<&str>, i: &mut usize| -> String {
            let first = parts.get(*i).copied().unwrap_or("").to_string();
            if q.starts_with('V') && first.starts_with("V=ok some") {
                let n = if q.len() > 1 { q[1..].split('.').count() * 2 } else { 1 };
                let g = parts[*i..(*i + n).min(parts.len())].join(";");
                *i += n;
                g
            } else {
                *i += 1;
                first
            }
        };
        let x = take(&pa, &mut ia);
        let y = take(&pb, &mut ib);
        if x == y { continue; }
        let (px, py) = (pieces(&x), pieces(&y));
        if px.len() != py.len() {
            if status(&x) == "err" { continue; }
            return Err(format!("C18: stream, {} changed an answer: `{}` vs `{}`", what, &x[..x.len().min(160)], &y[..y.len().min(160)]));
        }
        for (u, v) in px.iter().zip(&py) {
            if u != v && status(u) != "err" {
                return Err(format!("C18: stream, {} changed an answer: `{}` vs `{}`", what, &u[..u.len().min(160)], &v[..v.len().min(160)]));
            }
        }
    }
    Ok(())
}

pub fn oracle_line3(line: &str, ann: &str) -> V {
    let t: Vec<&str> = line.trim().split(' ').collect();
    match t.as_slice() {
        ["sprefix", _sp, ops, k, hexd] => oracle_sprefix(ops, nat(k), &unhex(hexd), ann),
        ["stream", sp, sched, ops, hexd] => {
            if ann.contains("faults") {
                oracle_streamfault(sp, sched, ops, &unhex(hexd))
            } else {
                oracle_stream(sp, sched, ops, &unhex(hexd), ann)
            }
        }
        _ => Ok(()),
    }
}
