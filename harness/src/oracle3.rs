//! Oracles for the stream parser (ElfStream) streams.
type V = Result<(), String>;
pub fn oracle_line3(_line: &str, _ann: &str) -> V {
    Ok(())
}
