//! ABI encoders written from the gABI / GNU documents, independent of the crate under test.
//! Used by the generators (to build well-formed inputs) and by the oracles (ground truth).

pub fn put(buf: &mut Vec<u8>, le: bool, width: usize, v: u64) {
    // LSB: byte i = floor(v / 256^i) mod 256; MSB: reversed
    let mut bytes: Vec<u8> = (0..width).map(|i| ((v >> (8 * i)) & 0xff) as u8).collect();
    if !le {
        bytes.reverse();
    }
    buf.extend_from_slice(&bytes);
}

pub fn put_at(buf: &mut [u8], pos: usize, le: bool, width: usize, v: u64) {
    let mut tmp = vec![];
    put(&mut tmp, le, width, v);
    if pos + width <= buf.len() {
        buf[pos..pos + width].copy_from_slice(&tmp);
    }
}

/// reference decoder (shift-and-add)
pub fn get(buf: &[u8], le: bool, width: usize) -> u64 {
    let mut v: u64 = 0;
    for i in 0..width {
        let b = if le { buf[width - 1 - i] } else { buf[i] };
        v = (v << 8) | b as u64;
    }
    v
}

/// ABI layouts: (field, width in bytes, signed) in on-disk order, per class.
/// Transcribed from the System V gABI (chapters 4, 5), the GNU symbol versioning
/// description (LSB Core, "Symbol Versioning") and the GNU hash section description.
pub fn layout(ty: &str, is64: bool) -> Vec<(&'static str, usize, bool)> {
    let a = if is64 { 8 } else { 4 }; // Elf_Addr / Elf_Off / Elf_Xword-or-Word
    match (ty, is64) {
        ("FileHeaderTail", _) => vec![
            ("e_type", 2, false), ("e_machine", 2, false), ("version", 4, false), ("e_entry", a, false),
            ("e_phoff", a, false), ("e_shoff", a, false), ("e_flags", 4, false), ("e_ehsize", 2, false),
            ("e_phentsize", 2, false), ("e_phnum", 2, false), ("e_shentsize", 2, false),
            ("e_shnum", 2, false), ("e_shstrndx", 2, false),
        ],
        ("SectionHeader", _) => vec![
            ("sh_name", 4, false), ("sh_type", 4, false), ("sh_flags", a, false), ("sh_addr", a, false),
            ("sh_offset", a, false), ("sh_size", a, false), ("sh_link", 4, false), ("sh_info", 4, false),
            ("sh_addralign", a, false), ("sh_entsize", a, false),
        ],
        ("ProgramHeader", false) => vec![
            ("p_type", 4, false), ("p_offset", 4, false), ("p_vaddr", 4, false), ("p_paddr", 4, false),
            ("p_filesz", 4, false), ("p_memsz", 4, false), ("p_flags", 4, false), ("p_align", 4, false),
        ],
        ("ProgramHeader", true) => vec![
            ("p_type", 4, false), ("p_flags", 4, false), ("p_offset", 8, false), ("p_vaddr", 8, false),
            ("p_paddr", 8, false), ("p_filesz", 8, false), ("p_memsz", 8, false), ("p_align", 8, false),
        ],
        ("Symbol", false) => vec![
            ("st_name", 4, false), ("st_value", 4, false), ("st_size", 4, false), ("st_info", 1, false),
            ("st_other", 1, false), ("st_shndx", 2, false),
        ],
        ("Symbol", true) => vec![
            ("st_name", 4, false), ("st_info", 1, false), ("st_other", 1, false), ("st_shndx", 2, false),
            ("st_value", 8, false), ("st_size", 8, false),
        ],
        ("Rel", _) => vec![("r_offset", a, false), ("r_info", a, false)],
        ("Rela", _) => vec![("r_offset", a, false), ("r_info", a, false), ("r_addend", a, true)],
        ("Dyn", _) => vec![("d_tag", a, true), ("d_un", a, false)],
        ("CompressionHeader", false) => vec![("ch_type", 4, false), ("ch_size", 4, false), ("ch_addralign", 4, false)],
        ("CompressionHeader", true) => vec![
            ("ch_type", 4, false), ("ch_reserved", 4, false), ("ch_size", 8, false), ("ch_addralign", 8, false),
        ],
        ("NoteGnuAbiTag", _) => vec![("os", 4, false), ("major", 4, false), ("minor", 4, false), ("subminor", 4, false)],
        ("SysVHashHeader", _) => vec![("nbucket", 4, false), ("nchain", 4, false)],
        ("GnuHashHeader", _) => vec![
            ("nbucket", 4, false), ("table_start_idx", 4, false), ("nbloom", 4, false), ("nshift", 4, false),
        ],
        ("VersionIndex", _) => vec![("0", 2, false)],
        ("VerDef", _) => vec![
            ("vd_version", 2, false), ("vd_flags", 2, false), ("vd_ndx", 2, false), ("vd_cnt", 2, false),
            ("vd_hash", 4, false), ("vd_aux", 4, false), ("vd_next", 4, false),
        ],
        ("VerDefAux", _) => vec![("vda_name", 4, false), ("vda_next", 4, false)],
        ("VerNeed", _) => vec![
            ("vn_version", 2, false), ("vn_cnt", 2, false), ("vn_file", 4, false), ("vn_aux", 4, false),
            ("vn_next", 4, false),
        ],
        ("VerNeedAux", _) => vec![
            ("vna_hash", 4, false), ("vna_flags", 2, false), ("vna_other", 2, false), ("vna_name", 4, false),
            ("vna_next", 4, false),
        ],
        ("u32", _) => vec![("0", 4, false)],
        ("u64", _) => vec![("0", 8, false)],
        _ => vec![],
    }
}

pub const ALL_TYPES: [&str; 17] = [
    "SectionHeader", "ProgramHeader", "Symbol", "Rel", "Rela", "Dyn", "CompressionHeader",
    "NoteGnuAbiTag", "SysVHashHeader", "GnuHashHeader", "VersionIndex", "VerDef", "VerDefAux",
    "VerNeed", "VerNeedAux", "u32", "u64",
];

pub fn abi_size(ty: &str, is64: bool) -> usize {
    layout(ty, is64).iter().map(|f| f.1).sum()
}

/// Encode ABI field values (raw unsigned bit patterns, one per layout field).
pub fn encode(ty: &str, is64: bool, le: bool, vals: &[u64]) -> Vec<u8> {
    let mut out = vec![];
    for ((_, w, _), v) in layout(ty, is64).iter().zip(vals) {
        put(&mut out, le, *w, *v);
    }
    out
}

fn sext(v: u64, width: usize) -> i64 {
    let bits = 8 * width as u32;
    if bits == 64 {
        v as i64
    } else if v >> (bits - 1) & 1 == 1 {
        (v | (!0u64 << bits)) as i64
    } else {
        v as i64
    }
}

/// The canonical text of the *native* record the ABI says these field values denote
/// (zero-extension, sign-extension, r_info split per ELF32_R_SYM/ELF64_R_SYM, dropped reserved).
pub fn expected_show(ty: &str, is64: bool, vals: &[u64]) -> Option<String> {
    let lay = layout(ty, is64);
    let g = |name: &str| -> u64 {
        lay.iter().position(|f| f.0 == name).map(|i| vals[i]).unwrap_or(0)
    };
    let gs = |name: &str| -> i64 {
        lay.iter().position(|f| f.0 == name).map(|i| sext(vals[i], lay[i].1)).unwrap_or(0)
    };
    let (r_sym, r_type) = if is64 {
        (g("r_info") >> 32, g("r_info") & 0xffff_ffff)
    } else {
        (g("r_info") >> 8, g("r_info") & 0xff)
    };
    Some(match ty {
        "SectionHeader" => format!(
            "shdr({},{},{},{},{},{},{},{},{},{})",
            g("sh_name"), g("sh_type"), g("sh_flags"), g("sh_addr"), g("sh_offset"), g("sh_size"),
            g("sh_link"), g("sh_info"), g("sh_addralign"), g("sh_entsize")
        ),
        "ProgramHeader" => format!(
            "phdr({},{},{},{},{},{},{},{})",
            g("p_type"), g("p_offset"), g("p_vaddr"), g("p_paddr"), g("p_filesz"), g("p_memsz"),
            g("p_flags"), g("p_align")
        ),
        "Symbol" => format!(
            "sym({},{},{},{},{},{})",
            g("st_name"), g("st_shndx"), g("st_info"), g("st_other"), g("st_value"), g("st_size")
        ),
        "Rel" => format!("rel({},{},{})", g("r_offset"), r_sym, r_type),
        "Rela" => format!("rela({},{},{},{})", g("r_offset"), r_sym, r_type, gs("r_addend")),
        "Dyn" => format!("dyn({},{})", gs("d_tag"), g("d_un")),
        "CompressionHeader" => format!("chdr({},{},{})", g("ch_type"), g("ch_size"), g("ch_addralign")),
        "NoteGnuAbiTag" => format!("abitag({},{},{},{})", g("os"), g("major"), g("minor"), g("subminor")),
        "SysVHashHeader" => format!("sysvhdr({},{})", g("nbucket"), g("nchain")),
        "GnuHashHeader" => format!(
            "gnuhdr({},{},{},{})",
            g("nbucket"), g("table_start_idx"), g("nbloom"), g("nshift")
        ),
        "VersionIndex" | "u32" | "u64" => format!("{}", vals[0]),
        "VerDef" => format!(
            "verdef({},{},{},{},{},{})",
            g("vd_flags"), g("vd_ndx"), g("vd_cnt"), g("vd_hash"), g("vd_aux"), g("vd_next")
        ),
        "VerDefAux" => format!("verdaux({},{})", g("vda_name"), g("vda_next")),
        "VerNeed" => format!("verneed({},{},{},{})", g("vn_cnt"), g("vn_file"), g("vn_aux"), g("vn_next")),
        "VerNeedAux" => format!(
            "vernaux({},{},{},{},{})",
            g("vna_hash"), g("vna_flags"), g("vna_other"), g("vna_name"), g("vna_next")
        ),
        _ => return None,
    })
}

/// gABI reference `elf_hash` (32-bit form).
pub fn ref_sysv_hash(name: &[u8]) -> u32 {
    let mut h: u32 = 0;
    for &c in name {
        h = (h << 4).wrapping_add(c as u32);
        let g = h & 0xf000_0000;
        if g != 0 {
            h ^= g >> 24;
        }
        h &= !g;
    }
    h
}

/// GNU hash reference (djb2, h*33 + c, seed 5381) on naturals reduced mod 2^32.
pub fn ref_gnu_hash(name: &[u8]) -> u32 {
    let mut h: u64 = 5381;
    for &c in name {
        h = (h * 33 + c as u64) % (1u64 << 32);
    }
    h as u32
}
