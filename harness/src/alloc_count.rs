//! Counting / size-recording global allocator.  Counts only while the current thread is "armed",
//! so the harness's own formatting is never attributed to the crate under test.
use std::alloc::{GlobalAlloc, Layout, System};
use std::cell::Cell;

thread_local! {
    static ARMED: Cell<bool> = const { Cell::new(false) };
    static COUNT: Cell<u64> = const { Cell::new(0) };
    static MAX_SIZE: Cell<usize> = const { Cell::new(0) };
    static TOTAL: Cell<u64> = const { Cell::new(0) };
}

pub struct Counting;

fn note(size: usize) {
    let _ = ARMED.try_with(|a| {
        if a.get() {
            let _ = COUNT.try_with(|c| c.set(c.get() + 1));
            let _ = MAX_SIZE.try_with(|m| if size > m.get() { m.set(size) });
            let _ = TOTAL.try_with(|t| t.set(t.get() + size as u64));
        }
    });
}

unsafe impl GlobalAlloc for Counting {
    unsafe fn alloc(&self, layout: Layout) -> *mut u8 {
        note(layout.size()); // recorded *before* delegating: an oversized request is seen even if it aborts
        System.alloc(layout)
    }
    unsafe fn alloc_zeroed(&self, layout: Layout) -> *mut u8 {
        note(layout.size());
        System.alloc_zeroed(layout)
    }
    unsafe fn realloc(&self, ptr: *mut u8, layout: Layout, new_size: usize) -> *mut u8 {
        note(new_size);
        System.realloc(ptr, layout, new_size)
    }
    unsafe fn dealloc(&self, ptr: *mut u8, layout: Layout) {
        System.dealloc(ptr, layout)
    }
}

#[global_allocator]
static GLOBAL: Counting = Counting;

/// start counting; returns the count so far
pub fn arm() -> u64 {
    MAX_SIZE.with(|m| m.set(0));
    ARMED.with(|a| a.set(true));
    COUNT.with(|c| c.get())
}

/// start counting without resetting the running maximum
pub fn arm_keep_max() -> u64 {
    ARMED.with(|a| a.set(true));
    COUNT.with(|c| c.get())
}

/// stop counting; returns the number of allocations since `arm`
pub fn disarm(before: u64) -> u64 {
    ARMED.with(|a| a.set(false));
    COUNT.with(|c| c.get()) - before
}

pub fn max_size() -> usize {
    MAX_SIZE.with(|m| m.get())
}
