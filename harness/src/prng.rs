//! SplitMix64: every random choice of the harness derives from one state.
#[derive(Clone)]
pub struct Rng(pub u64);

impl Rng {
    pub fn new(seed: u64) -> Self {
        Rng(seed ^ 0x9E37_79B9_7F4A_7C15)
    }
    pub fn next(&mut self) -> u64 {
        self.0 = self.0.wrapping_add(0x9E37_79B9_7F4A_7C15);
        let mut z = self.0;
        z = (z ^ (z >> 30)).wrapping_mul(0xBF58_476D_1CE4_E5B9);
        z = (z ^ (z >> 27)).wrapping_mul(0x94D0_49BB_1331_11EB);
        z ^ (z >> 31)
    }
    /// uniform in 0..n (n > 0)
    pub fn below(&mut self, n: u64) -> u64 {
        self.next() % n
    }
    pub fn range(&mut self, lo: u64, hi: u64) -> u64 {
        lo + self.below(hi - lo + 1)
    }
    pub fn chance(&mut self, num: u64, den: u64) -> bool {
        self.below(den) < num
    }
    pub fn pick<'a, T>(&mut self, xs: &'a [T]) -> &'a T {
        &xs[self.below(xs.len() as u64) as usize]
    }
    pub fn bytes(&mut self, n: usize) -> Vec<u8> {
        (0..n).map(|_| self.next() as u8).collect()
    }
    /// "interesting" 64-bit value: boundaries mixed with uniform and small values
    pub fn interesting(&mut self) -> u64 {
        const B: [u64; 14] = [
            0, 1, 2, 0x7f, 0x80, 0xff, 0x7fff_ffff, 0x8000_0000, 0xffff_ffff, 0x1_0000_0000,
            0x7fff_ffff_ffff_ffff, 0x8000_0000_0000_0000, 0xffff_ffff_ffff_fffe, u64::MAX,
        ];
        match self.below(4) {
            0 => *self.pick(&B),
            1 => self.below(64),
            2 => self.next(),
            _ => self.next() >> self.below(64),
        }
    }
    pub fn fork(&mut self) -> Rng {
        Rng(self.next())
    }
}
