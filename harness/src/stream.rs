//! The stream parser under a fault-injecting, recording `Read + Seek`.
use crate::show::*;
use elf::endian::{AnyEndian, BigEndian, EndianParse, LittleEndian, NativeEndian};
use elf::note::{Note, NoteIterator};
use elf::parse::{ParseAt, ParsingIterator, ParsingTable};
use elf::string_table::StringTable;
use elf::ElfStream;
use std::cell::RefCell;
use std::io::{Error, ErrorKind, Read, Seek, SeekFrom};
use std::rc::Rc;

#[derive(Clone, Copy, Debug, PartialEq)]
pub enum Fault {
    None,
    Short(usize),
    Interrupted,
    /// the call fails with an I/O error; the payload selects the `ErrorKind` (`f` = Other, `f1`… = FAIL_KINDS[n]):
    /// every kind other than `Interrupted` is a failure of the call, whatever a caller may think is "transient"
    Fail(u8),
    Eof,
}

pub const FAIL_KINDS: [ErrorKind; 8] = [
    ErrorKind::Other, ErrorKind::WouldBlock, ErrorKind::TimedOut, ErrorKind::Unsupported,
    ErrorKind::UnexpectedEof, ErrorKind::InvalidData, ErrorKind::BrokenPipe, ErrorKind::PermissionDenied,
];

/// a schedule may start with `p<N>`: the reader is handed over with its cursor at `N` (any `Read + Seek` the caller
/// supplies may have been read from before); the rest is one entry per I/O call
pub fn split_init_pos(s: &str) -> (u64, &str) {
    if let Some(rest) = s.strip_prefix('p') {
        let (num, tail) = match rest.split_once(',') { Some((a, b)) => (a, b), None => (rest, "-") };
        return (num.parse().unwrap_or(0), tail);
    }
    (0, s)
}

pub fn parse_sched(s: &str) -> Vec<Fault> {
    let (_, s) = split_init_pos(s);
    if s == "-" {
        return vec![];
    }
    s.split(',')
        .map(|t| match t {
            "i" => Fault::Interrupted,
            "f" => Fault::Fail(0),
            "e" => Fault::Eof,
            _ if t.starts_with('f') => Fault::Fail(t[1..].parse::<u8>().unwrap_or(0) % FAIL_KINDS.len() as u8),
            _ if t.starts_with('s') => Fault::Short(t[1..].parse().unwrap_or(0)),
            _ => Fault::None,
        })
        .collect()
}

#[derive(Clone, Debug)]
pub enum Ev {
    SeekEnd,
    Seek(u64),
    Read(usize, usize),
}

#[derive(Default)]
pub struct Log {
    pub events: Vec<Ev>,
    pub calls: usize,
    pub faults_hit: usize,
    /// I/O calls that *failed*: a seek or read returning an error other than `Interrupted`, or a read returning
    /// `Ok(0)` into a non-empty buffer (premature end of stream)
    pub hard_hits: usize,
}

/// Any legal `Read + Seek`: each call consumes one schedule entry.
pub struct FaultyReader {
    pub content: Vec<u8>,
    pub pos: u64,
    pub sched: std::collections::VecDeque<Fault>,
    pub log: Rc<RefCell<Log>>,
}

impl FaultyReader {
    fn next_fault(&mut self) -> Fault {
        let f = self.sched.pop_front().unwrap_or(Fault::None);
        let mut l = self.log.borrow_mut();
        l.calls += 1;
        if f != Fault::None {
            l.faults_hit += 1;
        }
        f
    }
}

impl Read for FaultyReader {
    fn read(&mut self, buf: &mut [u8]) -> std::io::Result<usize> {
        let f = self.next_fault();
        let want = buf.len();
        let avail = (self.content.len() as u64).saturating_sub(self.pos) as usize;
        let k = match f {
            Fault::None => want.min(avail),
            Fault::Short(k) => want.min(avail).min(k.max(1)),
            Fault::Eof => {
                if want > 0 { self.log.borrow_mut().hard_hits += 1; }
                0
            }
            Fault::Interrupted => {
                self.log.borrow_mut().events.push(Ev::Read(want, 0));
                return Err(Error::new(ErrorKind::Interrupted, "injected"));
            }
            Fault::Fail(kd) => {
                let mut l = self.log.borrow_mut();
                l.events.push(Ev::Read(want, 0));
                l.hard_hits += 1;
                return Err(Error::new(FAIL_KINDS[kd as usize % FAIL_KINDS.len()], "injected"));
            }
        };
        let p = self.pos as usize;
        buf[..k].copy_from_slice(&self.content[p..p + k]);
        self.pos += k as u64;
        self.log.borrow_mut().events.push(Ev::Read(want, k));
        Ok(k)
    }
}

impl Seek for FaultyReader {
    fn seek(&mut self, to: SeekFrom) -> std::io::Result<u64> {
        let f = self.next_fault();
        match to {
            SeekFrom::End(_) => self.log.borrow_mut().events.push(Ev::SeekEnd),
            SeekFrom::Start(p) => self.log.borrow_mut().events.push(Ev::Seek(p)),
            SeekFrom::Current(_) => {}
        }
        if let Fault::Fail(kd) = f {
            self.log.borrow_mut().hard_hits += 1;
            return Err(Error::new(FAIL_KINDS[kd as usize % FAIL_KINDS.len()], "injected"));
        }
        let np = match to {
            SeekFrom::End(d) => (self.content.len() as i64 + d) as u64,
            SeekFrom::Start(p) => p,
            SeekFrom::Current(d) => (self.pos as i64 + d) as u64,
        };
        self.pos = np;
        Ok(np)
    }
}

pub fn io_summary(events: &[Ev]) -> String {
    let mut out: Vec<String> = vec![];
    let mut cur: Option<(u64, usize)> = None;
    for e in events {
        match e {
            Ev::SeekEnd => {
                if let Some((p, b)) = cur {
                    out.push(format!("{}:{}", p, b));
                }
                out.push("end".into());
                cur = Some((0, 0));
            }
            Ev::Seek(p) => {
                if let Some((q, b)) = cur {
                    out.push(format!("{}:{}", q, b));
                }
                cur = Some((*p, 0));
            }
            Ev::Read(_, got) => {
                cur = Some(match cur {
                    Some((p, b)) => (p, b + got),
                    None => (0, *got),
                });
            }
        }
    }
    if let Some((p, b)) = cur {
        out.push(format!("{}:{}", p, b));
    }
    out.join(",")
}

pub fn content(b: &[u8]) -> String {
    let mut h: u64 = 0xcbf29ce484222325;
    for x in b {
        h ^= *x as u64;
        h = h.wrapping_mul(0x100000001b3);
    }
    format!("#{}:{}", b.len(), h)
}

pub fn show_note_c(n: &Note<'_>) -> String {
    match n {
        Note::GnuAbiTag(t) => format!("note:{}", t.show()),
        Note::GnuBuildId(id) => format!("note:buildid({})", content(id.0)),
        Note::Unknown(a) => format!(
            "note:any({},{},{},str={})",
            a.n_type,
            content(a.name),
            content(a.desc),
            show_res(&a.name_str(), |s| content(s.as_bytes()))
        ),
    }
}

pub fn notes_transcript_c<E: EndianParse>(mut it: NoteIterator<'_, E>) -> String {
    let mut items = vec![];
    for n in it.by_ref() {
        items.push(show_note_c(&n));
    }
    let p1 = it.next();
    format!("ok [{}] post=ok {}", items.join(" "), show_opt(&p1, |n| show_note_c(n)))
}

pub fn show_strtab_c(t: &StringTable<'_>, whole: Option<&[u8]>) -> String {
    // the table's extent is observable only through lookups: the offsets at and just past the declared end of the section
    // must be refused exactly as a table of that size refuses them (a table that came back longer answers differently)
    let probes = match whole {
        Some(w) => format!("{}/{}", show_res(&t.get_raw(w.len()), |s| content(s)), show_res(&t.get_raw(w.len() + 1), |s| content(s))),
        None => "-/-".into(),
    };
    format!(
        "strtab({},{}/{}/{})",
        whole.map(content).unwrap_or_else(|| "?".into()),
        show_res(&t.get_raw(0), |s| content(s)),
        show_res(&t.get_raw(1), |s| content(s)),
        probes
    )
}

fn iter_tr<E: EndianParse, P: ParseAt + Show>(mut it: ParsingIterator<'_, E, P>) -> String {
    let mut items = vec![];
    for x in it.by_ref() {
        items.push(x.show());
    }
    let p = it.next();
    format!("ok [{}] post=ok {}", items.join(" "), show_opt(&p, |v| v.show()))
}

pub fn table_digest<E: EndianParse, P: ParseAt + Show>(t: &ParsingTable<'_, E, P>) -> String {
    let items: Vec<String> = t.iter().map(|x| x.show()).collect();
    format!("n={} h={}", t.len(), fnv(&format!("ok [{}]", items.join(" "))))
}

pub fn list_digest<P: Show>(l: &[P]) -> String {
    let items: Vec<String> = l.iter().map(|x| x.show()).collect();
    format!("n={} h={}", l.len(), fnv(&format!("ok [{}]", items.join(" "))))
}

fn nat(s: &str) -> usize {
    s.parse::<usize>().unwrap_or(0)
}

/// The whole strtab bytes are not observable through `StringTable`; reconstruct them for the
/// content rendering from the section header's range in the original stream contents.
fn range_of<'a>(file: &'a [u8], off: u64, size: u64) -> Option<&'a [u8]> {
    let s = off as usize;
    let e = s.checked_add(size as usize)?;
    file.get(s..e)
}

pub fn stream_op<E: EndianParse>(s: &mut ElfStream<E, FaultyReader>, q: &str, file: &[u8]) -> String {
    let kind = q.chars().next().unwrap_or('?');
    let body = &q[kind.len_utf8().min(q.len())..];
    match kind {
        'T' => {
            let e_shstrndx = s.ehdr.e_shstrndx;
            let shdrs: Vec<elf::section::SectionHeader> = s.section_headers().clone();
            let r = s.section_headers_with_strtab();
            format!(
                "T={}",
                show_res(&r, |(_, t)| show_opt(t, |t| {
                    let idx = if e_shstrndx == 0xffff { shdrs.first().map(|x| x.sh_link as usize).unwrap_or(0) } else { e_shstrndx as usize };
                    let whole = shdrs.get(idx).and_then(|sh| range_of(file, sh.sh_offset, sh.sh_size));
                    show_strtab_c(t, whole)
                }))
            )
        }
        'S' => {
            let i = nat(body);
            let sh = match s.section_headers().get(i) {
                Some(sh) => *sh,
                None => return format!("S{}=oob", i),
            };
            let d = show_res(&s.section_data(&sh), |(d, c)| format!("{},{}", content(d), show_opt(c, |c| c.show())));
            let whole = range_of(file, sh.sh_offset, sh.sh_size);
            let st = show_res(&s.section_data_as_strtab(&sh), |t| show_strtab_c(t, whole));
            let rl = match s.section_data_as_rels(&sh) {
                Ok(it) => format!("ok {}", iter_tr(it)),
                Err(e) => format!("err {}", show_err(&e)),
            };
            let ra = match s.section_data_as_relas(&sh) {
                Ok(it) => format!("ok {}", iter_tr(it)),
                Err(e) => format!("err {}", show_err(&e)),
            };
            let nt = match s.section_data_as_notes(&sh) {
                Ok(it) => format!("ok {}", notes_transcript_c(it)),
                Err(e) => format!("err {}", show_err(&e)),
            };
            format!("S{}={} data={} strtab={} rels={} relas={} notes={}", i, sh.show(), d, st, rl, ra, nt)
        }
        'P' => {
            let i = nat(body);
            let ph = match s.segments().get(i) {
                Some(ph) => *ph,
                None => return format!("P{}=oob", i),
            };
            let nt = match s.segment_data_as_notes(&ph) {
                Ok(it) => format!("ok {}", notes_transcript_c(it)),
                Err(e) => format!("err {}", show_err(&e)),
            };
            format!("P{}={} notes={}", i, ph.show(), nt)
        }
        'N' => {
            let name = unhex(body);
            match std::str::from_utf8(&name) {
                Ok(n) => format!("N={}", show_res(&s.section_header_by_name(n), |o| show_opt(o, |x| x.show()))),
                Err(_) => "N=not-utf8".into(),
            }
        }
        'Y' | 'D' => {
            let ty = if kind == 'Y' { elf::abi::SHT_SYMTAB } else { elf::abi::SHT_DYNSYM };
            let shdrs: Vec<elf::section::SectionHeader> = s.section_headers().clone();
            let whole = shdrs
                .iter()
                .find(|x| x.sh_type == ty)
                .and_then(|sym| shdrs.get(sym.sh_link as usize))
                .and_then(|st| range_of(file, st.sh_offset, st.sh_size));
            let r = if kind == 'Y' { s.symbol_table() } else { s.dynamic_symbol_table() };
            format!(
                "{}={}",
                kind,
                show_res(&r, |o| show_opt(o, |(t, st)| format!("{},{}", table_digest(t), show_strtab_c(st, whole))))
            )
        }
        'd' => format!("d={}", show_res(&s.dynamic(), |o| show_opt(o, |t| table_digest(t)))),
        'V' => {
            let r = s.symbol_version_table();
            format!("V={}", show_res(&r, |o| show_opt(o, |t| symver_queries_c(t, body))))
        }
        _ => "bad-query".into(),
    }
}

pub fn symver_queries_c<E: EndianParse>(t: &elf::gnu_symver::SymbolVersionTable<'_, E>, idxs: &str) -> String {
    let mut out = vec![];
    if idxs == "-" || idxs.is_empty() {
        return String::new();
    }
    for i in idxs.split('.') {
        let i = nat(i);
        let r = t.get_requirement(i);
        out.push(format!(
            "r{}={}",
            i,
            show_res(&r, |o| show_opt(o, |q| format!(
                "req({},{},{},{},{})",
                content(q.file.as_bytes()), content(q.name.as_bytes()), q.hash, q.flags, show_bool(q.hidden)
            )))
        ));
        let ds = match t.get_definition(i) {
            Ok(Some(q)) => {
                let (hash, flags, hidden) = (q.hash, q.flags, q.hidden);
                let names: Vec<String> = q.names.map(|r| show_res(&r, |s| content(s.as_bytes()))).collect();
                format!("ok some def({},{},{},names=ok [{}])", hash, flags, show_bool(hidden), names.join(" "))
            }
            Ok(None) => "ok none".into(),
            Err(e) => format!("err {}", show_err(&e)),
        };
        out.push(format!("d{}={}", i, ds));
    }
    out.join(";")
}

pub struct StreamRun {
    pub reply: String,
    pub max_alloc: usize,
    pub allocs: u64,
    pub io_calls: usize,
    pub faults_hit: usize,
    /// the first operation (`open` or a query) during which an I/O call failed and which nevertheless reported no error
    pub ok_despite_failed_io: Option<String>,
}

pub fn run_stream_spec<E: EndianParse>(sched: &str, ops: &str, file: &[u8]) -> StreamRun {
    let log = Rc::new(RefCell::new(Log::default()));
    let rdr = FaultyReader { content: file.to_vec(), pos: split_init_pos(sched).0, sched: parse_sched(sched).into(), log: log.clone() };
    let before = crate::alloc_count::arm();
    let opened = ElfStream::<E, _>::open_stream(rdr);
    let mut parts = vec![];
    let mut ok_despite: Option<String> = None;
    let hard_open = log.borrow().hard_hits;
    match opened {
        Ok(mut s) => {
            let _ = crate::alloc_count::disarm(before);
            if hard_open > 0 {
                ok_despite = Some(format!("open_stream returned Ok although {} of its I/O calls failed", hard_open));
            }
            parts.push(format!(
                "open=ok {} shdrs={} phdrs={}",
                show_ehdr(&s.ehdr),
                list_digest(s.section_headers()),
                list_digest(s.segments())
            ));
            if ops != "-" {
                for q in ops.split(',') {
                    // arm only around the call under test: re-arm per op, formatting happens inside but
                    // buffer allocations dominate; the size bound (not the count) is what C08 uses
                    let b = crate::alloc_count::arm_keep_max();
                    let h0 = log.borrow().hard_hits;
                    let r = stream_op(&mut s, q, file);
                    let _ = crate::alloc_count::disarm(b);
                    let h1 = log.borrow().hard_hits;
                    // every query of the transcript is a handful of accessor calls; a failed I/O call inside one of
                    // them must make that call return Err, so at least one `err` appears in the query's reply
                    if h1 > h0 && ok_despite.is_none() && !r.contains("err ") && !r.contains("=oob") && r != "bad-query" && r != "N=not-utf8" {
                        ok_despite = Some(format!("`{}` reported no error although {} I/O call(s) failed during it: `{}`", q, h1 - h0, &r[..r.len().min(160)]));
                    }
                    parts.push(r);
                }
            }
        }
        Err(e) => {
            let _ = crate::alloc_count::disarm(before);
            parts.push(format!("open=err {}", show_err(&e)));
        }
    }
    let l = log.borrow();
    parts.push(format!("io={}", io_summary(&l.events)));
    StreamRun {
        reply: parts.join(";"),
        max_alloc: crate::alloc_count::max_size(),
        allocs: 0,
        io_calls: l.calls,
        faults_hit: l.faults_hit,
        ok_despite_failed_io: ok_despite,
    }
}

pub fn run_stream(spec: &str, sched: &str, ops: &str, file: &[u8]) -> StreamRun {
    match spec {
        "little" => run_stream_spec::<LittleEndian>(sched, ops, file),
        "big" => run_stream_spec::<BigEndian>(sched, ops, file),
        "native" => run_stream_spec::<NativeEndian>(sched, ops, file),
        _ => run_stream_spec::<AnyEndian>(sched, ops, file),
    }
}
