//! Reference walker for GNU symbol versions at file level (C13): decodes `.gnu.version`,
//! `.gnu.version_r` and `.gnu.version_d` straight from the file bytes per the GNU ABI, resolving the
//! names through each section's OWN `sh_link` string table, and compares every symbol's
//! requirement / definition with what `symbol_version_table()` answers.  Used on well-formed
//! generated files only.
use crate::enc::get;
use elf::abi;
use elf::endian::{AnyEndian, EndianParse};
use elf::section::SectionHeader;
use elf::ElfBytes;

type V = Result<(), String>;

fn cstr(tab: &[u8], off: usize) -> Option<&[u8]> {
    let t = tab.get(off..)?;
    let n = t.iter().position(|b| *b == 0)?;
    Some(&t[..n])
}

fn rd(b: &[u8], off: usize, w: usize, le: bool) -> Option<u64> {
    let e = off.checked_add(w)?;
    Some(get(b.get(off..e)?, le, w))
}

struct Need { file: Vec<u8>, auxs: Vec<(u16, u16, u32, Vec<u8>)> } // (other, flags, hash, name)
struct Def { ndx: u16, flags: u16, hash: u32, names: Vec<Vec<u8>> }

fn walk_needs(b: &[u8], strs: &[u8], count: usize, le: bool) -> Option<Vec<Need>> {
    let mut out = vec![];
    let mut off = 0usize;
    for _ in 0..count {
        let cnt = rd(b, off + 2, 2, le)? as usize;
        let file = rd(b, off + 4, 4, le)? as usize;
        let aux = rd(b, off + 8, 4, le)? as usize;
        let next = rd(b, off + 12, 4, le)? as usize;
        let mut a = off.checked_add(aux)?;
        let mut auxs = vec![];
        for _ in 0..cnt {
            let hash = rd(b, a, 4, le)? as u32;
            let flags = rd(b, a + 4, 2, le)? as u16;
            let other = rd(b, a + 6, 2, le)? as u16;
            let name = rd(b, a + 8, 4, le)? as usize;
            let an = rd(b, a + 12, 4, le)? as usize;
            auxs.push((other, flags, hash, cstr(strs, name)?.to_vec()));
            if an == 0 { break; }
            a = a.checked_add(an)?;
        }
        out.push(Need { file: cstr(strs, file)?.to_vec(), auxs });
        if next == 0 { break; }
        off = off.checked_add(next)?;
    }
    Some(out)
}

fn walk_defs(b: &[u8], strs: &[u8], count: usize, le: bool) -> Option<Vec<Def>> {
    let mut out = vec![];
    let mut off = 0usize;
    for _ in 0..count {
        let flags = rd(b, off + 2, 2, le)? as u16;
        let ndx = rd(b, off + 4, 2, le)? as u16;
        let cnt = rd(b, off + 6, 2, le)? as usize;
        let hash = rd(b, off + 8, 4, le)? as u32;
        let aux = rd(b, off + 12, 4, le)? as usize;
        let next = rd(b, off + 16, 4, le)? as usize;
        let mut a = off.checked_add(aux)?;
        let mut names = vec![];
        for _ in 0..cnt {
            let name = rd(b, a, 4, le)? as usize;
            let an = rd(b, a + 4, 4, le)? as usize;
            names.push(cstr(strs, name)?.to_vec());
            if an == 0 { break; }
            a = a.checked_add(an)?;
        }
        out.push(Def { ndx, flags, hash, names });
        if next == 0 { break; }
        off = off.checked_add(next)?;
    }
    Some(out)
}

pub fn oracle_file_versions(f: &ElfBytes<'_, AnyEndian>, data: &[u8]) -> V {
    let shdrs = match f.section_headers() { Some(s) => s, None => return Ok(()) };
    let le = f.ehdr.endianness.is_little();
    let raw = |s: &SectionHeader| -> Option<&[u8]> {
        let o = s.sh_offset as usize;
        data.get(o..o.checked_add(s.sh_size as usize)?)
    };
    let one = |t: u32| -> Option<SectionHeader> {
        let mut it = shdrs.iter().filter(|s| s.sh_type == t);
        let a = it.next();
        if it.next().is_some() { None } else { a }
    };
    let multi = |t: u32| shdrs.iter().filter(|s| s.sh_type == t).count() > 1;
    if multi(abi::SHT_GNU_VERSYM) || multi(abi::SHT_GNU_VERNEED) || multi(abi::SHT_GNU_VERDEF) { return Ok(()); }
    let vs = match one(abi::SHT_GNU_VERSYM) { Some(s) => s, None => return Ok(()) };
    if shdrs.iter().any(|s| s.sh_flags & abi::SHF_COMPRESSED as u64 != 0) { return Ok(()); }
    let vsb = match raw(&vs) { Some(b) => b, None => return Ok(()) };
    let strs_of = |s: &SectionHeader| -> Option<&[u8]> { raw(&shdrs.get(s.sh_link as usize).ok()?) };
    let needs = match one(abi::SHT_GNU_VERNEED) {
        Some(s) => match (raw(&s), strs_of(&s)) {
            (Some(b), Some(st)) => match walk_needs(b, st, s.sh_info as usize, le) { Some(n) => Some(n), None => return Ok(()) },
            _ => return Ok(()),
        },
        None => None,
    };
    let defs = match one(abi::SHT_GNU_VERDEF) {
        Some(s) => match (raw(&s), strs_of(&s)) {
            (Some(b), Some(st)) => match walk_defs(b, st, s.sh_info as usize, le) { Some(n) => Some(n), None => return Ok(()) },
            _ => return Ok(()),
        },
        None => None,
    };
    let table = match f.symbol_version_table() {
        Ok(Some(t)) => t,
        Ok(None) => return Err("C13: well-formed file with a .gnu.version section: symbol_version_table() is None".into()),
        Err(e) => return Err(format!("C13: well-formed versioned file: symbol_version_table() failed: {:?}", e)),
    };
    let nsyms = vsb.len() / 2;
    for i in 0..nsyms + 2 {
        let (idx, hidden) = if i < nsyms {
            let v = get(&vsb[2 * i..2 * i + 2], le, 2) as u16;
            (Some(v & 0x7fff), v & 0x8000 != 0)
        } else { (None, false) };
        // requirement
        let want_req = idx.and_then(|ix| needs.as_ref().and_then(|ns| {
            ns.iter().find_map(|n| n.auxs.iter().find(|a| a.0 == ix).map(|a| (n.file.clone(), a.3.clone(), a.2, a.1)))
        }));
        match (table.get_requirement(i), &want_req) {
            (Ok(None), None) => {}
            (Err(_), None) if idx.is_none() => {}
            (Ok(Some(r)), Some((file, name, hash, flags))) => {
                if r.file.as_bytes() != &file[..] || r.name.as_bytes() != &name[..] || r.hash != *hash || r.flags != *flags || r.hidden != hidden {
                    return Err(format!(
                        "C13: requirement of symbol {}: got file={:?} name={:?} hash={} flags={} hidden={}, the file's records say file={:?} name={:?} hash={} flags={} hidden={}",
                        i, r.file, r.name, r.hash, r.flags, r.hidden,
                        String::from_utf8_lossy(file), String::from_utf8_lossy(name), hash, flags, hidden));
                }
            }
            // a name that is not UTF-8 cannot be handed out as &str: an error is the right answer
            (Err(_), Some((file, name, _, _))) if std::str::from_utf8(file).is_err() || std::str::from_utf8(name).is_err() => {}
            (got, want) => {
                return Err(format!("C13: requirement of symbol {}: got {}, the file's records say {}", i,
                    match got { Ok(Some(_)) => "a record".to_string(), Ok(None) => "None".into(), Err(e) => format!("error {:?}", e) },
                    if want.is_some() { "a record" } else { "None" }));
            }
        }
        // definition
        let want_def = idx.and_then(|ix| defs.as_ref().and_then(|ds| ds.iter().find(|d| d.ndx == ix)));
        match (table.get_definition(i), want_def) {
            (Ok(None), None) => {}
            (Err(_), None) if idx.is_none() => {}
            (Ok(Some(d)), Some(w)) => {
                let names: Vec<Result<&str, _>> = d.names.collect();
                let ok = d.hash == w.hash && d.flags == w.flags && d.hidden == hidden && names.len() == w.names.len()
                    && names.iter().zip(&w.names).all(|(g, n)| match g { Ok(s) => s.as_bytes() == &n[..], Err(_) => std::str::from_utf8(n).is_err() });
                if !ok {
                    return Err(format!(
                        "C13: definition of symbol {}: got hash={} flags={} hidden={} names={:?}, the file's records say hash={} flags={} hidden={} names={:?}",
                        i, d.hash, d.flags, d.hidden, names.iter().map(|g| g.as_ref().map(|s| s.to_string()).unwrap_or("<err>".into())).collect::<Vec<_>>(),
                        w.hash, w.flags, hidden, w.names.iter().map(|n| String::from_utf8_lossy(n).to_string()).collect::<Vec<_>>()));
                }
            }
            (got, want) => {
                return Err(format!("C13: definition of symbol {}: got {}, the file's records say {}", i,
                    match got { Ok(Some(_)) => "a record".to_string(), Ok(None) => "None".into(), Err(e) => format!("error {:?}", e) },
                    if want.is_some() { "a record" } else { "None" }));
            }
        }
    }
    Ok(())
}
