//! Directed stream cases added after the third seeding round: cache behaviour of the stream parser
//! (many cached ranges, overlapping ranges whose total exceeds the stream, ranges sharing a start
//! offset with different lengths read in both orders) and identification defects seen through
//! `ElfStream` on the shortest files.
use crate::elfbuild::*;
use crate::enc::*;
use crate::gen::Case;
use crate::prng::Rng;
use crate::show::hex;

fn sym_sections(o: &mut Obj, rng: &mut Rng, is64: bool, le: bool, dynamic: bool) {
    let names: Vec<Vec<u8>> = { let mut n = vec![vec![]]; for i in 0..6 { n.push(format!("sym{}_{}", i, rng.below(100)).into_bytes()); } n };
    let (strtab, offs) = build_strtab(&names);
    let syms: Vec<SymSpec> = names.iter().enumerate().map(|(i, n)| SymSpec { name: n.clone(), info: 0x12, other: 0, shndx: 1, value: i as u64 * 8, size: 8 }).collect();
    let symtab = build_symtab(is64, le, &syms, &offs);
    let (sn, tn, ty) = if dynamic { (&b".dynsym"[..], &b".dynstr"[..], SHT_DYNSYM) } else { (&b".symtab"[..], &b".strtab"[..], SHT_SYMTAB) };
    let mut s = Sec::new(sn, ty, symtab);
    s.entsize = abi_size("Symbol", is64) as u64;
    s.addralign = 8;
    let si = o.add_sec(s);
    let ti = o.add_sec(Sec::new(tn, SHT_STRTAB, strtab));
    o.secs[si].link = ti as u32;
}

pub fn gen_streamcache(rng: &mut Rng, n: usize, thorough: bool) -> Vec<Case> {
    let mut out = vec![];
    let reps = n.max(1);
    for k in 0..reps {
        let is64 = k % 2 == 0;
        let le = (k / 2) % 2 == 0;
        // (a) many distinct cached ranges, then the multi-range queries
        {
            let mut o = Obj::new(is64, le);
            let nsmall = if thorough { 150 } else { 70 + (k % 3) * 30 };
            for i in 0..nsmall {
                let l = rng.range(1, 4) as usize;
                o.add_sec(Sec::new(format!(".d{}", i).as_bytes(), SHT_PROGBITS, rng.bytes(l)));
            }
            sym_sections(&mut o, rng, is64, le, false);
            sym_sections(&mut o, rng, is64, le, true);
            let name_off = o.finish_names();
            let built = o.build(&name_off);
            let all: Vec<String> = (1..=nsmall).map(|i| format!("S{}", i)).collect();
            let h = hex(&built.bytes);
            out.push((format!("stream any - {},Y,D,T,Y {}", all.join(","), h), "clean=1|many-ranges".into()));
            // exactly 63 / 64 / 65 distinct ranges before the symbol table
            for m in [62usize, 63, 64, 65] {
                if m <= nsmall {
                    out.push((format!("stream any - {},Y,D {}", all[..m].join(","), h), "clean=1|many-ranges".into()));
                }
            }
        }
        // (b) overlapping ranges whose total length exceeds the stream, then the multi-range queries
        {
            let mut o = Obj::new(is64, le);
            o.add_sec(Sec::new(b".text", SHT_PROGBITS, rng.bytes(40)));
            sym_sections(&mut o, rng, is64, le, false);
            sym_sections(&mut o, rng, is64, le, true);
            let first_big = o.secs.len();
            let nbig = 4 + 17;
            for i in 0..nbig { o.add_sec(Sec::new(format!(".big{}", i).as_bytes(), SHT_PROGBITS, vec![])); }
            let name_off = o.finish_names();
            let len = o.build(&name_off).bytes.len() as u64;
            for i in 0..4u64 {
                o.secs[first_big + i as usize].off_override = Some(i + 1);
                o.secs[first_big + i as usize].size_override = Some(len - 8 - i);
            }
            // one covering section for every residual d: after reading it, len - 8 - d bytes are cached, so that the
            // first load of a later multi-range query still fits under the stream length and its second does not
            for j in 0..17u64 {
                o.secs[first_big + 4 + j as usize].off_override = Some(8);
                o.secs[first_big + 4 + j as usize].size_override = Some(len.saturating_sub(8 + 16 + 24 * j));
            }
            let built = o.build(&name_off);
            let bigs: Vec<String> = (0..4).map(|i| format!("S{}", first_big + i)).collect();
            let h = hex(&built.bytes);
            out.push((format!("stream any - {},Y,D,Y {}", bigs.join(","), h), "clean=1|overlap".into()));
            out.push((format!("stream any - Y,{},D,S1,Y {}", bigs[..2].join(","), h), "clean=1|overlap".into()));
            for j in 0..17 {
                out.push((format!("stream any - S{},Y,D {}", first_big + 4 + j, h), "clean=1|overlap".into()));
                out.push((format!("stream any - S{},D,Y {}", first_big + 4 + j, h), "clean=1|overlap".into()));
            }
        }
        // (c) two section headers over ranges that start at the same offset with different lengths, both orders
        {
            let mut o = Obj::new(is64, le);
            o.add_sec(Sec::new(b".text", SHT_PROGBITS, rng.bytes(16)));
            let esz = abi_size("Rel", is64);
            let esza = abi_size("Rela", is64);
            let nrel = rng.range(3, 6) as usize;
            let mut s = Sec::new(b".rel.all", SHT_REL, rng.bytes(nrel * esz));
            s.entsize = esz as u64; s.addralign = 8;
            let rel_all = o.add_sec(s);
            let mut s = Sec::new(b".rela.all", SHT_RELA, rng.bytes(nrel * esza));
            s.entsize = esza as u64; s.addralign = 8;
            let rela_all = o.add_sec(s);
            let notes = vec![
                NoteSpec { n_type: 1, name: b"GNU\0".to_vec(), desc: { let mut d = vec![]; for _ in 0..4 { put(&mut d, le, 4, rng.below(9)); } d } },
                NoteSpec { n_type: 3, name: b"GNU\0".to_vec(), desc: rng.bytes(8) },
            ];
            let first_len = build_notes(le, 4, &notes[..1]).len();
            let mut s = Sec::new(b".note.all", SHT_NOTE, build_notes(le, 4, &notes));
            s.addralign = 4;
            let note_all = o.add_sec(s);
            let mut s = Sec::new(b".str.all", SHT_STRTAB, b"\0alpha\0beta\0gamma\0".to_vec());
            s.addralign = 1;
            let str_all = o.add_sec(s);
            o.segs.push(Seg { p_type: PT_NOTE, flags: 4, sec: Some(note_all), offset: 0, filesz: 0, memsz: u64::MAX, vaddr: 0, paddr: 0, align: 4 });
            // the short twins (filled in after the first build tells where the long ones lie)
            let twins = [(b".rel.head".to_vec(), SHT_REL, rel_all, esz as u64, esz as u64, 8u64),
                         (b".rela.head".to_vec(), SHT_RELA, rela_all, esza as u64, esza as u64, 8),
                         (b".note.head".to_vec(), SHT_NOTE, note_all, first_len as u64, 0, 4),
                         (b".str.head".to_vec(), SHT_STRTAB, str_all, 7, 0, 1)];
            let first_twin = o.secs.len();
            for (nm, ty, _, _, ent, al) in twins.iter() {
                let mut s = Sec::new(nm, *ty, vec![]);
                s.entsize = *ent; s.addralign = *al;
                o.add_sec(s);
            }
            let name_off = o.finish_names();
            let b1 = o.build(&name_off);
            for (j, (_, _, long, short_len, _, _)) in twins.iter().enumerate() {
                o.secs[first_twin + j].off_override = Some(b1.sec_range[*long].0);
                o.secs[first_twin + j].size_override = Some(*short_len);
            }
            let built = o.build(&name_off);
            let h = hex(&built.bytes);
            for (j, (_, _, long, _, _, _)) in twins.iter().enumerate() {
                let (l, s) = (format!("S{}", long), format!("S{}", first_twin + j));
                out.push((format!("stream any - {},{} {}", l, s, h), "clean=1|same-start".into()));
                out.push((format!("stream any - {},{},{} {}", s, l, s, h), "clean=1|same-start".into()));
                out.push((format!("stream any - {},S1,{},{} {}", l, s, l, h), "clean=1|same-start".into()));
            }
            // the PT_NOTE segment (both records) and the section holding only the first record
            out.push((format!("stream any - P0,S{} {}", first_twin + 2, h), "clean=1|same-start".into()));
            out.push((format!("stream any - S{},P0,S{} {}", first_twin + 2, first_twin + 2, h), "clean=1|same-start".into()));
        }
        // (d) header checks do not depend on the cache: a table section with a wrong sh_entsize whose byte range is
        //     already cached (raw read first) must still be refused by the typed query, and the other way round
        {
            let fc = crate::gen3::rand_object_kind(rng, true, true);
            let le = fc.obj.le;
            for (i, sec) in fc.obj.secs.iter().enumerate() {
                let q = match sec.sh_type { SHT_SYMTAB => "Y", SHT_DYNSYM => "D", SHT_GNU_VERSYM => "V0.1.2", SHT_DYNAMIC => "d", _ => continue };
                let f = match fc.built.fields.iter().find(|f| f.name == format!("s{}.sh_entsize", i)) { Some(f) => f.clone(), None => continue };
                let cur = get(&fc.built.bytes[f.off..f.off + f.width], le, f.width);
                for v in [0u64, cur + 1, cur.saturating_sub(1), if cur == 24 { 16 } else { 24 }, cur * 2] {
                    if v == cur { continue; }
                    let mut b = fc.built.bytes.clone();
                    put_at(&mut b, f.off, le, f.width, v);
                    let h = hex(&b);
                    out.push((format!("stream any - S{},{},{} {}", i, q, q, h), format!("clean=0|corrupt=s{}.sh_entsize={}|cached-first", i, v)));
                    out.push((format!("stream any - {},S{},{} {}", q, i, q, h), format!("clean=0|corrupt=s{}.sh_entsize={}", i, v)));
                }
            }
        }
    }
    out
}

/// identification defects through `ElfStream::open_stream`, on header-only files of both classes
/// (52 / 64 bytes, with 0..12 trailing bytes) and on streams shorter than the identification
pub fn gen_identstream(rng: &mut Rng, _n: usize, thorough: bool) -> Vec<Case> {
    let mut out = vec![];
    for is64 in [false, true] {
        for le in [false, true] {
            let o = Obj::new(is64, le);
            let base = o.build(&[]).bytes;
            let extras: Vec<usize> = if thorough { (0..13).collect() } else { vec![0, 1, 7, 11, 12] };
            for extra in extras {
                let mut file = base.clone();
                file.extend(rng.bytes(extra));
                for spec in ["any", "little", "big"] {
                    out.push((format!("stream {} - - {}", spec, hex(&file)), "ident|clean".into()));
                    // one defect at a time, and pairs
                    let defects: Vec<(usize, u8)> = vec![(0, 0x7e), (1, b'F'), (3, 0), (4, 0), (4, 3), (4, 0xff), (5, 0), (5, 3), (5, 0xff), (6, 0), (6, 2), (6, 42)];
                    for (pos, val) in defects.iter() {
                        let mut f = file.clone();
                        f[*pos] = *val;
                        out.push((format!("stream {} - - {}", spec, hex(&f)), "ident|defect".into()));
                    }
                    let mut f = file.clone();
                    f[0] = 0; f[6] = 9;
                    out.push((format!("stream {} - - {}", spec, hex(&f)), "ident|defect2".into()));
                    // a reader handed over with its cursor past the magic / past the ident / at and past the end; and a
                    // file that carries a header image of the other byte order further in (cursor left on it)
                    for p0 in [4usize, 16, file.len(), file.len() + 3] {
                        out.push((format!("stream {} p{} - {}", spec, p0, hex(&file)), "ident|clean|handed-over".into()));
                        let mut f = file.clone();
                        f[5] = 3;
                        out.push((format!("stream {} p{} - {}", spec, p0, hex(&f)), "ident|defect|handed-over".into()));
                    }
                    if extra == 0 {
                        let other = Obj::new(is64, !le).build(&[]).bytes;
                        let mut f = file.clone();
                        f.extend(&other);
                        out.push((format!("stream {} p{} - {}", spec, file.len(), hex(&f)), "ident|embedded-other-order|handed-over".into()));
                    }
                }
            }
            for cut in [0usize, 1, 4, 8, 15, 16, 17, 51] {
                if cut < base.len() {
                    out.push((format!("stream any - - {}", hex(&base[..cut])), "ident|short".into()));
                }
            }
        }
    }
    out
}

/// the three version sections in every relative order of their section headers (and with VERNEED or VERDEF
/// missing), queried through both parsers: which header comes first must not matter
pub fn gen_verorder(rng: &mut Rng, n: usize, _thorough: bool) -> Vec<Case> {
    let mut out = vec![];
    let mut seen: Vec<Vec<u32>> = vec![];
    let want = 6 + 4;
    for _ in 0..600 {
        if seen.len() >= want * n.max(1) { break; }
        let fc = crate::gen3::rand_object_kind(rng, true, true);
        if fc.kinds.contains(&"dup-versym") { continue; }
        let order: Vec<u32> = fc.obj.secs.iter().map(|s| s.sh_type)
            .filter(|t| [SHT_GNU_VERSYM, SHT_GNU_VERNEED, SHT_GNU_VERDEF].contains(t)).collect();
        if !order.contains(&SHT_GNU_VERSYM) || order.len() < 2 { continue; }
        if seen.iter().filter(|o| **o == order).count() >= n.max(1) { continue; }
        seen.push(order.clone());
        let vq = fc.queries.iter().find(|q| q.starts_with('V')).cloned().unwrap_or_else(|| "V0.1.2.3".into());
        let h = hex(&fc.built.bytes);
        let ann = format!("verorder={}", order.iter().map(|t| match *t { SHT_GNU_VERSYM => "S", SHT_GNU_VERNEED => "N", _ => "D" }).collect::<Vec<_>>().join(""));
        out.push((format!("file any {} {}", vq, h), ann.clone()));
        out.push((format!("stream any - {},Y,{} {}", vq, vq, h), ann));
    }
    out
}
