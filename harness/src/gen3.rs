//! Whole-file generators: structured objects, structured corruption, prefixes.
use crate::elfbuild::*;
use crate::enc::*;
use crate::gen::Case;
use crate::gen2::*;
use crate::prng::Rng;
use crate::show::hex;

pub struct FileCase {
    pub obj: Obj,
    pub built: Built,
    pub queries: Vec<String>,
    pub kinds: Vec<&'static str>,
}

fn q_names(obj: &Obj, rng: &mut Rng) -> Vec<Vec<u8>> {
    let mut v: Vec<Vec<u8>> = vec![];
    for s in obj.secs.iter().skip(1) {
        if std::str::from_utf8(&s.name).is_ok() && rng.chance(1, 2) {
            v.push(s.name.clone());
        }
    }
    v.truncate(3);
    // names that no section can have: two (three) adjacent string-table entries glued by their NULs, and the null
    // section's empty name glued to the first entry — equal, as a byte run, to what sits at some sh_name
    let named: Vec<&Vec<u8>> = obj.secs.iter().skip(1).map(|s| &s.name).filter(|n| !n.is_empty() && std::str::from_utf8(n).is_ok()).collect();
    if named.len() >= 2 {
        let i = rng.below(named.len() as u64 - 1) as usize;
        let mut g = named[i].clone();
        g.push(0);
        g.extend(named[i + 1]);
        if rng.chance(1, 2) && i + 2 < named.len() { g.push(0); g.extend(named[i + 2]); }
        v.push(g);
        let mut z = vec![0u8];
        z.extend(named[0]);
        v.push(z);
    }
    v.push(b".nosuch".to_vec());
    v.push(b".tex".to_vec());
    v.push(b".text.hot".to_vec());
    v.push(vec![]);
    v.truncate(8);
    v
}

/// A random, mostly well-formed object exercising every kind of section the crate understands.
pub fn rand_object(rng: &mut Rng, rich: bool) -> FileCase {
    rand_object_kind(rng, rich, false)
}

/// `full`: every kind of section is present (symtab, dynsym, both hash tables, versions, dynamic,
/// relocations, notes) and the section headers are in a random order.
pub fn rand_object_kind(rng: &mut Rng, rich: bool, full: bool) -> FileCase {
    let is64 = rng.below(2) == 0;
    let le = rng.below(2) == 0;
    let mut o = Obj::new(is64, le);
    o.osabi = rng.below(20) as u8;
    o.abiversion = rng.below(3) as u8;
    o.e_type = rng.range(0, 4) as u16;
    o.e_entry = rng.interesting() & if is64 { u64::MAX } else { 0xffff_ffff };
    o.tables_first = rng.below(2) == 0;
    o.pad = (rng.below(3) * 8) as usize;
    let mut kinds: Vec<&'static str> = vec![];
    let mut hash_queries: Vec<Vec<u8>> = vec![];
    let mut versym_len = 0usize;
    let want = |rng: &mut Rng, p: u64| full || rich && rng.chance(p, 10) || !rich && rng.chance(p, 25);

    if rng.chance(9, 10) {
        // .text with a name that is a prefix of another section's name
        let l = rng.below(40) as usize;
        let mut t = Sec::new(b".text", SHT_PROGBITS, rng.bytes(l));
        t.flags = 6;
        t.addralign = *rng.pick(&[1u64, 4, 16]);
        let ti = o.add_sec(t);
        o.segs.push(Seg { p_type: PT_LOAD, flags: 5, sec: Some(ti), offset: 0, filesz: 0, memsz: u64::MAX, vaddr: 0x1000, paddr: 0x1000, align: 0x1000 });
        if rng.chance(1, 3) {
            let l2 = rng.below(8) as usize;
            o.add_sec(Sec::new(b".text.hot", SHT_PROGBITS, rng.bytes(l2)));
        }
        if rng.chance(1, 4) {
            o.add_sec(Sec::new(b".text", SHT_PROGBITS, vec![1, 2, 3])); // duplicate name
        }
    }
    if want(rng, 6) {
        // notes
        let align = *rng.pick(&[1u64, 4, 4, 8, 0, 3]);
        let k = rng.below(5) as usize;
        let notes = rand_notes(rng, k, 12);
        let data = build_notes(le, if align == 0 { 4 } else { align as usize }, &notes);
        let mut s = Sec::new(b".note.test", SHT_NOTE, data);
        s.addralign = align;
        let ni = o.add_sec(s);
        o.segs.push(Seg { p_type: PT_NOTE, flags: 4, sec: Some(ni), offset: 0, filesz: 0, memsz: u64::MAX, vaddr: 0, paddr: 0, align });
        kinds.push("note");
    }
    if want(rng, 6) {
        // .symtab + .strtab
        let names = { let mut n = vec![vec![]]; let k = rng.below(12) as usize; n.extend(name_set(rng, k)); n };
        let (strtab, offs) = build_strtab(&names);
        let syms: Vec<SymSpec> = names.iter().enumerate().map(|(i, n)| SymSpec {
            name: n.clone(), info: rng.next() as u8, other: rng.below(4) as u8, shndx: rng.below(5) as u16,
            value: rng.interesting() & if is64 { u64::MAX } else { 0xffff_ffff }, size: i as u64 }).collect();
        let symtab = build_symtab(is64, le, &syms, &offs);
        let mut s = Sec::new(b".symtab", SHT_SYMTAB, symtab);
        s.entsize = abi_size("Symbol", is64) as u64;
        s.addralign = 8;
        let si = o.add_sec(s);
        let sti = o.add_sec(Sec::new(b".strtab", SHT_STRTAB, strtab));
        o.secs[si].link = sti as u32;
        kinds.push("symtab");
    }
    let mut dynstr_idx = 0usize;
    if want(rng, 7) {
        // .dynsym + .dynstr (+ .hash, .gnu.hash, versions)
        let nn = rng.below(14) as usize;
        let use_gnu = full || rng.chance(2, 3);
        let use_sysv = full || rng.chance(1, 2);
        let (names, symtab, strtab, gnu_hash) = if use_gnu {
            let nbucket = rng.range(1, 5) as u32;
            let nbloom = *rng.pick(&[1u32, 2, 4]);
            let sh = rng.below(32) as u32;
            let so = rng.range(1, 3) as u32;
            let c = build_gnu_case(rng, is64, le, nn, nbucket, nbloom, sh, so);
            (c.names, c.symtab, c.strtab, Some(c.hash))
        } else {
            let c = build_sysv_case(rng, is64, le, nn, 1);
            (c.names, c.symtab, c.strtab, None)
        };
        let mut s = Sec::new(b".dynsym", SHT_DYNSYM, symtab);
        s.entsize = abi_size("Symbol", is64) as u64;
        s.addralign = 8;
        let di = o.add_sec(s);
        // version strings share .dynstr
        let m = rand_ver_model(rng, false);
        let mut dynstr = strtab.clone();
        let base = dynstr.len() as u32;
        dynstr.extend(&m.strtab);
        let dsi = o.add_sec(Sec::new(b".dynstr", SHT_STRTAB, dynstr));
        dynstr_idx = dsi;
        o.secs[di].link = dsi as u32;
        kinds.push("dynsym");
        if use_sysv {
            let nb = rng.range(1, 4) as u32;
            let mut h = Sec::new(b".hash", SHT_HASH, build_sysv_hash(le, nb, &names));
            h.link = di as u32;
            h.addralign = 4;
            o.add_sec(h);
            kinds.push("hash");
        }
        if let Some(g) = gnu_hash {
            let mut h = Sec::new(b".gnu.hash", SHT_GNU_HASH, g);
            h.link = di as u32;
            h.addralign = 8;
            o.add_sec(h);
            kinds.push("gnuhash");
        }
        for n in names.iter().skip(1).take(3) { hash_queries.push(n.clone()); }
        hash_queries.push(b"absent_sym".to_vec());
        if want(rng, 7) {
            let str_off = |s: &[u8]| -> u32 { m.str_offs.iter().find(|(n, _)| n == s).map(|x| x.1 + base).unwrap_or(0) };
            let inter = rng.below(2) == 0;
            let gap = if rng.chance(1, 3) { 4 } else { 0 };
            let mut vs = vec![];
            for v in &m.versym { put(&mut vs, le, 2, *v as u64); }
            versym_len = m.versym.len();
            let mut s = Sec::new(b".gnu.version", SHT_GNU_VERSYM, vs);
            s.entsize = 2; s.link = di as u32; s.addralign = 2;
            o.add_sec(s);
            let dup = rng.chance(1, 4);
            if dup {
                // a second section of the same type with other contents (no linker emits this; the two parsers must
                // still agree on which one a query uses)
                let mut vs2 = vec![];
                for v in m.versym.iter().rev() { put(&mut vs2, le, 2, (*v ^ 1) as u64); }
                put(&mut vs2, le, 2, 2);
                let mut s = Sec::new(b".gnu.version2", SHT_GNU_VERSYM, vs2);
                s.entsize = 2; s.link = di as u32; s.addralign = 2;
                o.add_sec(s);
                kinds.push("dup-versym");
            }
            if !m.needs.is_empty() || rng.chance(1, 3) {
                let mut s = Sec::new(b".gnu.version_r", SHT_GNU_VERNEED, build_verneed(le, &m.needs, &str_off, inter, gap));
                s.link = dsi as u32; s.info = m.needs.len() as u32; s.addralign = 4;
                o.add_sec(s);
                if dup && m.needs.len() >= 2 {
                    let rev: Vec<_> = m.needs.iter().rev().cloned().collect();
                    let mut s = Sec::new(b".gnu.version_r2", SHT_GNU_VERNEED, build_verneed(le, &rev[..rev.len() - 1], &str_off, inter, gap));
                    s.link = dsi as u32; s.info = (rev.len() - 1) as u32; s.addralign = 4;
                    o.add_sec(s);
                }
            }
            if !m.defs.is_empty() || rng.chance(1, 3) {
                if rng.chance(1, 3) {
                    // the definitions' names live in their own string table (sh_link differs from VERNEED's)
                    let mut own = vec![0u8];
                    let pl = rng.range(1, 9) as usize;
                    own.extend((0..pl).map(|_| *rng.pick(b"qrstuv")));
                    own.push(0);
                    let base2 = own.len() as u32;
                    own.extend(&m.strtab);
                    let vsi = o.add_sec(Sec::new(b".verstr", SHT_STRTAB, own));
                    let str_off2 = |s: &[u8]| -> u32 { m.str_offs.iter().find(|(n, _)| n == s).map(|x| x.1 + base2).unwrap_or(0) };
                    let mut s = Sec::new(b".gnu.version_d", SHT_GNU_VERDEF, build_verdef(le, &m.defs, &str_off2, inter, gap));
                    s.link = vsi as u32; s.info = m.defs.len() as u32; s.addralign = 4;
                    o.add_sec(s);
                } else {
                    let mut s = Sec::new(b".gnu.version_d", SHT_GNU_VERDEF, build_verdef(le, &m.defs, &str_off, inter, gap));
                    s.link = dsi as u32; s.info = m.defs.len() as u32; s.addralign = 4;
                    o.add_sec(s);
                }
            }
            kinds.push("symver");
        }
    }
    if want(rng, 6) {
        // .dynamic (+ PT_DYNAMIC whenever sections exist, per the property's scoping)
        let n = rng.below(6) as usize;
        let mut d = vec![];
        for _ in 0..n {
            let w = if is64 { 8 } else { 4 };
            put(&mut d, le, w, rng.interesting());
            put(&mut d, le, w, rng.interesting());
        }
        put(&mut d, le, if is64 { 8 } else { 4 }, 0);
        put(&mut d, le, if is64 { 8 } else { 4 }, 0);
        let mut s = Sec::new(b".dynamic", SHT_DYNAMIC, d);
        s.entsize = abi_size("Dyn", is64) as u64;
        s.link = dynstr_idx as u32;
        s.addralign = 8;
        let di = o.add_sec(s);
        if rng.chance(4, 5) {
            o.segs.push(Seg { p_type: PT_DYNAMIC, flags: 6, sec: Some(di), offset: 0, filesz: 0, memsz: u64::MAX, vaddr: 0, paddr: 0, align: 8 });
        }
        kinds.push("dynamic");
    }
    if !kinds.contains(&"dynamic") && o.secs.len() > 1 && rng.chance(1, 5) {
        // a PT_DYNAMIC segment without any SHT_DYNAMIC section (the segment covers some other section's bytes)
        let si = rng.range(1, o.secs.len() as u64 - 1) as usize;
        o.segs.push(Seg { p_type: PT_DYNAMIC, flags: 6, sec: Some(si), offset: 0, filesz: 0, memsz: u64::MAX, vaddr: 0, paddr: 0, align: 8 });
        kinds.push("ptdyn-only");
    }
    if want(rng, 4) {
        let n = rng.below(5) as usize;
        let esz = abi_size("Rela", is64);
        let extra = rng.below(esz as u64) as usize * rng.below(2) as usize;
        let mut s = Sec::new(b".rela.text", SHT_RELA, rng.bytes(n * esz + extra));
        s.entsize = esz as u64; s.addralign = 8;
        o.add_sec(s);
        let n2 = rng.below(5) as usize;
        let esz2 = abi_size("Rel", is64);
        let mut s = Sec::new(b".rel.text", SHT_REL, rng.bytes(n2 * esz2));
        s.entsize = esz2 as u64; s.addralign = 8;
        o.add_sec(s);
        kinds.push("rel");
    }
    if want(rng, 3) {
        let mut s = Sec::new(b".bss", SHT_NOBITS, vec![0; rng.below(64) as usize]);
        s.flags = 3;
        o.add_sec(s);
        kinds.push("nobits");
    }
    if want(rng, 4) {
        // compressed section: Chdr followed by payload
        let vals: Vec<u64> = if is64 { vec![1, 0, 1000, 8] } else { vec![1, 1000, 8] };
        let mut d = encode("CompressionHeader", is64, le, &vals);
        let pl = rng.below(20) as usize;
        d.extend(rng.bytes(pl));
        if rng.chance(1, 4) { let c = rng.below(d.len() as u64) as usize; d.truncate(c); } // shorter than its header
        let mut s = Sec::new(b".zdebug", SHT_PROGBITS, d);
        s.flags = SHF_COMPRESSED;
        o.add_sec(s);
        if rng.chance(1, 3) {
            let mut t = Sec::new(b".zstr", SHT_STRTAB, { let mut d = encode("CompressionHeader", is64, le, &vals); d.extend(b"\0abc\0"); d });
            t.flags = SHF_COMPRESSED;
            o.add_sec(t);
        }
        kinds.push("compressed");
    }
    if rng.chance(1, 6) {
        // a section with a non-UTF-8 name and one with overlapping / zero-length range
        o.add_sec(Sec::new(&[0xff, b'x'], SHT_PROGBITS, vec![9]));
        let mut z = Sec::new(b".zero", SHT_PROGBITS, vec![]);
        z.off_override = Some(rng.below(64));
        o.add_sec(z);
    }
    if o.secs.len() > 2 && (full || rng.chance(1, 2)) {
        // any order of the section headers (links and segment references follow)
        let mut perm: Vec<usize> = (1..o.secs.len()).collect();
        for i in (1..perm.len()).rev() { let j = rng.below(i as u64 + 1) as usize; perm.swap(i, j); }
        o.permute_secs(&perm);
    }
    let name_off = if !o.secs.is_empty() && rng.chance(19, 20) { o.finish_names() } else { vec![0; o.secs.len()] };
    if !full && rng.chance(1, 12) { o.no_shdrs = true; }
    if !full && rng.chance(1, 12) { o.no_phdrs = true; }
    if rng.chance(1, 8) && !o.secs.is_empty() { o.ext_shnum = true; }
    if rng.chance(1, 8) && !o.secs.is_empty() { o.ext_shstrndx = true; }
    if rng.chance(1, 8) && !o.secs.is_empty() && !o.segs.is_empty() { o.ext_phnum = true; }
    if rng.chance(1, 5) { let tl = rng.below(9) as usize; o.trailing = rng.bytes(tl); }
    // p_filesz != p_memsz
    for g in o.segs.iter_mut() { if rng.chance(1, 3) { g.memsz = rng.below(4096); } }
    let mut built = o.build(&name_off);
    if kinds.contains(&"dynamic") && rng.chance(1, 4) {
        // a PT_DYNAMIC segment that ends before its .dynamic section does (fewer entries): the two designate
        // different byte ranges, and a truncation between the two ends separates them
        if let Some(gi) = o.segs.iter().position(|g| g.p_type == PT_DYNAMIC && g.sec.is_some()) {
            let si = o.segs[gi].sec.unwrap();
            let (off, size) = built.sec_range.get(si).copied().unwrap_or((0, 0));
            let esz = abi_size("Dyn", is64) as u64;
            if size >= 2 * esz {
                let keep = rng.range(1, size / esz - 1) * esz;
                let _ = off;
                o.segs[gi].filesz = keep; // stays tied to the section: covers its first `keep` bytes in every layout
                built = o.build(&name_off);
                kinds.push("short-ptdyn");
            }
        }
    }

    let mut qs: Vec<String> = vec!["T".into(), "C".into(), "Y".into(), "D".into(), "d".into()];
    let vidx: Vec<String> = (0..(versym_len + 2).min(10)).map(|i| i.to_string()).collect();
    qs.push(format!("V{}", vidx.join(".")));
    for n in q_names(&o, rng) { qs.push(format!("N{}", hex(&n))); }
    for n in hash_queries.iter().take(4) { qs.push(format!("H{}", hex(n))); }
    let ns = o.secs.len().min(16);
    for i in 0..ns + 1 { qs.push(format!("S{}", i)); }
    for i in 0..o.segs.len().min(6) + 1 { qs.push(format!("P{}", i)); }
    FileCase { obj: o, built, queries: qs, kinds }
}

fn truth_ann(fc: &FileCase, clean: bool) -> String {
    let b = &fc.built;
    format!(
        "clean={}|shoff={}|shnum={}|phoff={}|phnum={}|shstrndx={}|kinds={}",
        clean as u8, b.shoff, b.shnum, b.phoff, b.phnum, fc.obj.shstrndx, fc.kinds.join("+")
    )
}

/// structured corruption of one or two header/table fields
pub fn corrupt_pub(rng: &mut Rng, fc: &FileCase) -> (Vec<u8>, String) {
    corrupt(rng, fc)
}

fn corrupt(rng: &mut Rng, fc: &FileCase) -> (Vec<u8>, String) {
    let mut bytes = fc.built.bytes.clone();
    let le = fc.obj.le;
    let mut what = vec![];
    let nf = rng.range(1, 2);
    for _ in 0..nf {
        if fc.built.fields.is_empty() { break; }
        let f = &fc.built.fields[rng.below(fc.built.fields.len() as u64) as usize];
        let cur = get(&bytes[f.off..f.off + f.width], le, f.width);
        let mask = if f.width == 8 { u64::MAX } else { (1u64 << (8 * f.width)) - 1 };
        let v = match rng.below(10) {
            0 => 0,
            1 => 1,
            2 => 1u64 << 31,
            3 => (1u64 << 32) - 1,
            4 => 1u64 << 63,
            5 => u64::MAX,
            6 => cur.wrapping_add(1),
            7 => cur.wrapping_sub(1),
            8 => bytes.len() as u64,
            _ => rng.interesting(),
        } & mask;
        put_at(&mut bytes, f.off, le, f.width, v);
        what.push(format!("{}={}", f.name, v));
    }
    match rng.below(8) {
        0 => { let cut = rng.below(bytes.len() as u64 + 1) as usize; bytes.truncate(cut); what.push(format!("truncate={}", cut)); }
        1 => { for _ in 0..3 { let p = rng.below(bytes.len() as u64) as usize; bytes[p] ^= 1 << rng.below(8); } what.push("bitflips".into()); }
        _ => {}
    }
    (bytes, what.join("+"))
}

pub fn gen_file(rng: &mut Rng, n: usize, thorough: bool) -> Vec<Case> {
    let mut out = vec![];
    for k in 0..n {
        let fc = rand_object(rng, k % 3 != 2);
        let q = fc.queries.join(",");
        let spec = *rng.pick(&["any", "any", "any", "little", "big", "native"]);
        out.push((format!("file {} {} {}", spec, q, hex(&fc.built.bytes)), truth_ann(&fc, true)));
        // corrupted variants
        let nc = if thorough { 4 } else { 2 };
        for _ in 0..nc {
            let (b, what) = corrupt(rng, &fc);
            out.push((format!("file any {} {}", q, hex(&b)), format!("clean=0|corrupt={}", what)));
        }
    }
    // objects holding every kind of section, headers in random order
    for _ in 0..n / 6 + 8 {
        let fc = rand_object_kind(rng, true, true);
        let q = fc.queries.join(",");
        out.push((format!("file any {} {}", q, hex(&fc.built.bytes)), truth_ann(&fc, true)));
        let (b, what) = corrupt(rng, &fc);
        out.push((format!("file any {} {}", q, hex(&b)), format!("clean=0|corrupt={}", what)));
    }
    // nothing in the format reserves section-header slot 0 for the parser: every kind of table section once *in slot 0*
    // (its header copied over the null header, its old slot turned into SHT_NULL — still one section of each kind)
    for _ in 0..2 {
        let fc = rand_object_kind(rng, true, false);
        if fc.obj.ext_shnum || fc.obj.ext_phnum || fc.obj.ext_shstrndx || fc.built.shnum < 2 { continue; }
        let entsz = if fc.obj.is64 { 64usize } else { 40 };
        let shoff = fc.built.shoff as usize;
        let q = fc.queries.join(",");
        for k in 1..(fc.built.shnum as usize) {
            let at = shoff + k * entsz;
            if at + entsz > fc.built.bytes.len() { break; }
            let ty = get(&fc.built.bytes[at + 4..at + 8], fc.obj.le, 4) as u32;
            if ![SHT_SYMTAB, SHT_DYNSYM, SHT_DYNAMIC, SHT_HASH, SHT_GNU_HASH, SHT_GNU_VERSYM, SHT_GNU_VERNEED, SHT_GNU_VERDEF].contains(&ty) { continue; }
            let mut b = fc.built.bytes.clone();
            let hdr: Vec<u8> = b[at..at + entsz].to_vec();
            b[shoff..shoff + entsz].copy_from_slice(&hdr);
            crate::enc::put_at(&mut b, at + 4, fc.obj.le, 4, SHT_NULL as u64);
            out.push((format!("file any {} {}", q, hex(&b)), format!("clean=0|slot0={}", ty)));
        }
    }
    // random bytes behind a valid ident
    for _ in 0..n / 4 + 4 {
        let is64 = rng.below(2) == 0;
        let mut b = crate::gen::good_ident(is64, rng.below(2) == 0);
        let l = rng.below(200) as usize;
        b.extend(rng.bytes(l));
        out.push((format!("file any T,C,Y,D,d,V0.1,S0,S1,P0,P1 {}", hex(&b)), "clean=0|corrupt=random".into()));
    }
    out
}

/// extended numbering: section counts crossing 0xff00, phnum crossing 0xffff, shstrndx around 0xff00
pub fn gen_bigfile(rng: &mut Rng, n: usize, thorough: bool) -> Vec<Case> {
    let mut out = vec![];
    let counts: Vec<(usize, usize)> = if thorough {
        vec![(0xfeff, 3), (0xff00, 3), (0xff01, 2), (0xff20, 1), (5, 0xfffe), (5, 0xffff), (5, 0x10000), (3, 0x10010), (0xff05, 0xffff), (0xff04, 1)]
    } else {
        vec![(0xff00, 2), (4, 0xffff), (0xfeff, 1), (3, 0x10003), (0xff04, 1)]
    };
    for (k, (nsec, nseg)) in counts.into_iter().enumerate() {
        if k >= n.max(1) * 10 { break; }
        let is64 = rng.below(2) == 0;
        let le = rng.below(2) == 0;
        let mut o = Obj::new(is64, le);
        o.tables_first = rng.below(2) == 0;
        for i in 1..nsec.saturating_sub(1) {
            let mut s = Sec::new(b"", if i % 1000 == 7 { SHT_PROGBITS } else { SHT_NULL + 1 }, vec![]);
            s.sh_type = SHT_PROGBITS;
            s.info = i as u32;
            o.add_sec(s);
        }
        for i in 0..nseg {
            o.segs.push(Seg { p_type: if i == nseg - 1 { PT_NOTE } else { PT_LOAD }, flags: i as u32, sec: None, offset: 0, filesz: 0, memsz: 0, vaddr: 0, paddr: 0, align: 4 });
        }
        let name_off = o.finish_names(); // shstrtab is the last section: index ≥ 0xff00 when nsec is
        let built = o.build(&name_off);
        let ns = built.shnum;
        let np = built.phnum;
        let mut qs = vec!["T".to_string(), "d".into(), format!("N{}", hex(b".shstrtab"))];
        for i in [0u64, 1, ns.saturating_sub(1), ns, ns + 1, 0xfeff, 0xff00, 0xffff] { qs.push(format!("S{}", i)); }
        for i in [0u64, np.saturating_sub(1), np, 0xfffe, 0xffff, 0x10000] { qs.push(format!("P{}", i)); }
        let fc = FileCase { obj: o, built, queries: qs, kinds: vec!["big"] };
        out.push((format!("file any {} {}", fc.queries.join(","), hex(&fc.built.bytes)), truth_ann(&fc, true)));
        // the same file with the section-name string table's index written *plainly* into e_shstrndx although it lies in
        // the reserved range 0xff00..0xfffe, and shdr[0].sh_link left 0: only the value 0xffff (SHN_XINDEX) is the escape
        let last = (ns as u64).saturating_sub(1);
        if last >= 0xff00 && last < 0xffff {
            let field = |n: &str| fc.built.fields.iter().find(|f| f.name == n).cloned();
            if let (Some(fa), Some(fb)) = (field("e_shstrndx"), field("s0.sh_link")) {
                let mut bytes = fc.built.bytes.clone();
                crate::enc::put_at(&mut bytes, fa.off, le, fa.width, last);
                crate::enc::put_at(&mut bytes, fb.off, le, fb.width, 0);
                out.push((format!("file any {} {}", fc.queries.join(","), hex(&bytes)), "clean=0|big|plain-shstrndx".into()));
            }
        }
    }
    out
}

/// every prefix (sampled in quick) of generated files with tables placed early, plus suffixes
pub fn gen_prefix(rng: &mut Rng, n: usize, thorough: bool) -> Vec<Case> {
    let mut out = vec![];
    for k in 0..n {
        let mut fc = rand_object(rng, true);
        if k % 4 != 3 {
            // tables early so that most prefixes still open
            fc.obj.tables_first = true;
            fc.obj.trailing = vec![];
            let name_off = fc.built.name_off.clone();
            fc.built = fc.obj.build(&name_off);
        }
        let len = fc.built.bytes.len();
        let q = fc.queries.iter().filter(|q| !q.starts_with('S') || q.len() <= 3).cloned().collect::<Vec<_>>().join(",");
        let h = hex(&fc.built.bytes);
        let ks: Vec<usize> = if thorough && k % 3 == 0 {
            (0..=len).collect()
        } else {
            let mut v: Vec<usize> = (0..24).map(|_| rng.below(len as u64 + 1) as usize).collect();
            v.extend([0, 15, 16, 51, 52, 63, 64, len.saturating_sub(1), len]);
            for f in fc.built.fields.iter().take(40) { if rng.chance(1, 6) { v.push(f.off); v.push(f.off + f.width); } }
            // the ends of every section and segment range, one byte before them, and a point inside
            for r in fc.built.sec_range.iter().chain(fc.built.seg_range.iter()) {
                if r.1 > 0 && r.0 + r.1 <= len as u64 {
                    v.push((r.0 + r.1) as usize);
                    v.push((r.0 + r.1 - 1) as usize);
                    v.push((r.0 + r.1 / 2) as usize);
                }
            }
            v.sort();
            v.dedup();
            v.into_iter().filter(|x| *x <= len).collect()
        };
        for kk in ks {
            out.push((format!("prefix any {} {} {}", q, kk, h), "-".into()));
        }
        // appended bytes
        let mut ext = fc.built.bytes.clone();
        let extra = rng.range(1, 40) as usize;
        ext.extend(rng.bytes(extra));
        out.push((format!("prefix any {} {} {}", q, len, hex(&ext)), "suffix".into()));
    }
    // directed: files in which two headers designate different extents of one table (a PT_DYNAMIC segment that
    // ends before its .dynamic section does), header tables first, cut at every byte between the two ends —
    // on those prefixes one designation is readable and the other is not
    let want = if thorough { 6 } else { 3 };
    let mut found = 0;
    for _ in 0..400 {
        if found >= want { break; }
        let mut fc = rand_object(rng, true);
        if !fc.kinds.contains(&"short-ptdyn") { continue; }
        fc.obj.tables_first = true;
        fc.obj.no_shdrs = false;
        fc.obj.trailing = vec![];
        let name_off = fc.built.name_off.clone();
        fc.built = fc.obj.build(&name_off);
        let gi = match fc.obj.segs.iter().position(|g| g.p_type == PT_DYNAMIC && g.sec.is_some()) { Some(g) => g, None => continue };
        let si = fc.obj.segs[gi].sec.unwrap();
        let (sr, gr) = match (fc.built.sec_range.get(si), fc.built.seg_range.get(gi)) { (Some(a), Some(b)) => (*a, *b), _ => continue };
        let len = fc.built.bytes.len();
        if gr.0 + gr.1 >= sr.0 + sr.1 || (sr.0 + sr.1) as usize > len { continue; }
        found += 1;
        let h = hex(&fc.built.bytes);
        let lo = (gr.0 + gr.1).saturating_sub(2) as usize;
        let hi = ((sr.0 + sr.1) as usize + 1).min(len);
        for kk in lo..=hi {
            out.push((format!("prefix any T,C,Y,D,d {} {}", kk, h), "two-extents".into()));
        }
        // the same read backwards: the file cut inside the section, then extended by other bytes
        let cut = ((gr.0 + gr.1 + sr.0 + sr.1) / 2) as usize;
        let mut ext = fc.built.bytes[..cut].to_vec();
        let extra = (sr.0 + sr.1) as usize - cut + rng.range(0, 8) as usize;
        ext.extend(rng.bytes(extra));
        out.push((format!("prefix any T,C,Y,D,d {} {}", cut, hex(&ext)), "two-extents|suffix".into()));
    }
    out
}

/// systematic single-field corruption: every recorded header/table field of one rich object set
/// to each boundary value (0, 1, 2^31, 2^32-1, 2^63, 2^64-1, +-1 around the valid value, file length)
pub fn gen_sweep(rng: &mut Rng, n: usize, thorough: bool) -> Vec<Case> {
    let mut out = vec![];
    let objs = if thorough { n.max(1) * 3 } else { n.max(1) };
    for _ in 0..objs {
        let fc = rand_object(rng, true);
        let le = fc.obj.le;
        // queries: keep the transcript small but complete
        let q = fc.queries.join(",");
        for f in &fc.built.fields {
            let cur = get(&fc.built.bytes[f.off..f.off + f.width], le, f.width);
            let mask = if f.width == 8 { u64::MAX } else { (1u64 << (8 * f.width)) - 1 };
            let mut vals = vec![0u64, 1, 1 << 31, (1u64 << 32) - 1, 1u64 << 63, u64::MAX, cur.wrapping_add(1), cur.wrapping_sub(1),
                                fc.built.bytes.len() as u64];
            for v in vals.iter_mut() { *v &= mask; }
            vals.sort();
            vals.dedup();
            for v in vals {
                if v == cur { continue; }
                let mut b = fc.built.bytes.clone();
                put_at(&mut b, f.off, le, f.width, v);
                out.push((format!("file any {} {}", q, hex(&b)), format!("clean=0|corrupt={}={}", f.name, v)));
            }
        }
    }
    out
}
