//! Generators for the structured streams: notes, hash tables, version records, whole files.
use crate::elfbuild::*;
use crate::enc::*;
use crate::gen::Case;
use crate::prng::Rng;
use crate::show::hex;

fn cls(is64: bool) -> u32 {
    if is64 { 64 } else { 32 }
}

// ------------------------------------------------------------------------------------------
// notes
// ------------------------------------------------------------------------------------------

pub fn rand_notes(rng: &mut Rng, n: usize, max_sz: usize) -> Vec<NoteSpec> {
    (0..n)
        .map(|_| match rng.below(6) {
            0 => NoteSpec {
                n_type: 1,
                name: b"GNU\0".to_vec(),
                desc: { let mut d = vec![]; for _ in 0..4 { put(&mut d, true, 4, rng.below(100)); } d },
            },
            1 => { let l = rng.below(max_sz as u64 + 1) as usize; NoteSpec { n_type: 3, name: b"GNU\0".to_vec(), desc: rng.bytes(l) } }
            2 => { let l = rng.below(max_sz as u64 + 1) as usize; NoteSpec { n_type: rng.below(8) as u32, name: b"GNU\0".to_vec(), desc: rng.bytes(l) } }
            3 => NoteSpec { n_type: rng.below(8) as u32, name: vec![], desc: vec![] }, // a bare 12-byte header
            _ => {
                let nl = rng.below(max_sz as u64 + 1) as usize;
                let mut name: Vec<u8> = (0..nl).map(|_| *rng.pick(b"abcXYZ.")).collect();
                match rng.below(4) {
                    0 => name.push(0),
                    1 => { name.push(0); name.push(0); }
                    2 if !name.is_empty() => { name[0] = 0xff; }
                    _ => {}
                }
                let dl = rng.below(max_sz as u64 + 1) as usize;
                NoteSpec { n_type: rng.next() as u32, name, desc: rng.bytes(dl) }
            }
        })
        .collect()
}

pub fn gen_notes(rng: &mut Rng, n: usize, thorough: bool) -> Vec<Case> {
    let mut out = vec![];
    // residue sweep: one note with every (namesz, descsz) residue, followed by a marker note
    let aligns: &[usize] = if thorough { &[1, 2, 4, 8, 16, 3, 5, 6, 12] } else { &[1, 4, 8, 3] };
    let maxr = if thorough { 17 } else { 9 };
    for &align in aligns {
        for ns in 0..maxr {
            for ds in 0..maxr {
                if !thorough && (ns * 7 + ds * 3) % 4 != 0 {
                    continue;
                }
                let le = (ns + ds) % 2 == 0;
                let notes = vec![
                    NoteSpec { n_type: 7, name: vec![b'n'; ns], desc: vec![0xd5; ds] },
                    NoteSpec { n_type: 9, name: b"mark\0".to_vec(), desc: vec![1, 2, 3] },
                ];
                let data = build_notes(le, align, &notes);
                out.push((format!("notes {} {} {} {}", le as u8, cls(ns % 2 == 0), align, hex(&data)), "wf=1".into()));
                // the same two records in the other order: the swept one is the last record of the buffer
                let rev = vec![notes[1].clone(), notes[0].clone()];
                let data = build_notes(le, align, &rev);
                out.push((format!("notes {} {} {} {}", le as u8, cls(ns % 2 == 0), align, hex(&data)), "wf=1|last".into()));
            }
        }
    }
    // alignment sweep on a well-formed two-note buffer: every boundary alignment a caller or a header can supply
    {
        let notes = vec![
            NoteSpec { n_type: 5, name: b"ab\0".to_vec(), desc: vec![1, 2, 3, 4, 5] },
            NoteSpec { n_type: 6, name: b"c\0".to_vec(), desc: vec![9] },
        ];
        let mut aligns: Vec<u64> = vec![0, 1, 2, 3, 4, 5, 7, 8, 16, 17, 64, 255, 256, 0x7fff_ffff, 0x8000_0000, 0xffff_ffff,
                                        0x1_0000_0000, (1 << 63) - 1, 1 << 63, (1 << 63) + 1];
        for k in 0..40u64 { aligns.push(u64::MAX - k); }
        for a in aligns {
            for le in [true, false] {
                let data = build_notes(le, 4, &notes);
                out.push((format!("notes {} 64 {} {}", le as u8, a, hex(&data)), "wf=0|align-sweep".into()));
            }
        }
    }
    // typed reading needs the exact name "GNU\0": every near miss (no NUL, extra NULs, case, prefix/suffix, leading NUL)
    // with each typed n_type, descriptors shorter and longer than an ABI tag, followed by a marker record
    {
        let near: [&[u8]; 10] = [b"GNU", b"GNU\0\0", b"GNU\0\0\0\0\0", b"GNU\0", b"gnu\0", b"GNUX\0", b"\0GNU\0", b"GN\0", b"GNU\0G", b"GNU "];
        for (i, nm) in near.iter().enumerate() {
            for ty in [1u32, 3, 2, 0x100] {
                for dl in [0usize, 4, 16, 20] {
                    let le = (i + dl) % 2 == 0;
                    let align = if i % 3 == 0 { 8 } else { 4 };
                    let notes = vec![
                        NoteSpec { n_type: ty, name: nm.to_vec(), desc: (0..dl as u8).collect() },
                        NoteSpec { n_type: 9, name: b"mark\0".to_vec(), desc: vec![1, 2, 3] },
                    ];
                    let data = build_notes(le, align, &notes);
                    out.push((format!("notes {} {} {} {}", le as u8, cls(i % 2 == 0), align, hex(&data)), "wf=1|near-gnu".into()));
                }
            }
        }
    }
    for _ in 0..n {
        let le = rng.below(2) == 0;
        let is64 = rng.below(2) == 0;
        let align = match rng.below(10) {
            0 => 0u64,
            1 => rng.interesting(),
            2 => *rng.pick(&[3u64, 5, 6, 7, 12, 24]),
            _ => *rng.pick(&[1u64, 2, 4, 8, 16]),
        };
        let k = rng.below(8) as usize;
        let notes = rand_notes(rng, k, 40);
        let a = if align == 0 || align > 64 { 4 } else { align as usize };
        let mut data = build_notes(le, a, &notes);
        let mut wf = align != 0 && align <= 64;
        match rng.below(6) {
            0 => { let g = rng.below(20) as usize; data.extend(rng.bytes(g)); } // trailing garbage
            1 if !data.is_empty() => { let cut = rng.below(data.len() as u64) as usize; data.truncate(cut); }
            2 if data.len() >= 12 => {
                // corrupt a size word
                let v = rng.interesting();
                let p = (rng.below(2) * 4) as usize;
                put_at(&mut data, p, le, 4, v & 0xffff_ffff);
                wf = false;
            }
            _ => {}
        }
        out.push((format!("notes {} {} {} {}", le as u8, cls(is64), align, hex(&data)), format!("wf={}", wf as u8)));
    }
    out
}

// ------------------------------------------------------------------------------------------
// hash tables
// ------------------------------------------------------------------------------------------

fn default_sym(name: &[u8], i: usize) -> SymSpec {
    SymSpec { name: name.to_vec(), info: 0x12, other: 0, shndx: if i == 0 { 0 } else { 1 }, value: 0x1000 + i as u64 * 8, size: 8 }
}

/// a symbol whose every field varies: the lookup's answer depends on the name only, whatever the symbol is
/// (undefined, absolute, common, section/file/TLS typed, local/weak, any visibility, zero value or size)
fn rand_sym(rng: &mut Rng, name: &[u8], i: usize) -> SymSpec {
    if i == 0 {
        return default_sym(name, 0);
    }
    let ty = *rng.pick(&[0u8, 1, 2, 2, 2, 3, 4, 5, 6, 10]);
    let bind = *rng.pick(&[0u8, 1, 1, 2, 10]);
    SymSpec {
        name: name.to_vec(),
        info: (bind << 4) | ty,
        other: rng.below(4) as u8,
        shndx: *rng.pick(&[0u16, 0, 1, 1, 2, 0xfff1, 0xfff2, 0xffff]),
        value: *rng.pick(&[0u64, 0, 1, 0x1000 + i as u64 * 8, 0xffff_ffff]),
        size: *rng.pick(&[0u64, 8, 0x7fff_ffff]),
    }
}

pub struct HashCase {
    pub symtab: Vec<u8>,
    pub strtab: Vec<u8>,
    pub hash: Vec<u8>,
    pub names: Vec<Vec<u8>>, // in symbol-table order (index 0 = the null symbol)
    pub first_hashed: usize,
}

pub fn build_sysv_case(rng: &mut Rng, is64: bool, le: bool, nnames: usize, nbucket: u32) -> HashCase {
    let mut names = vec![vec![]];
    names.extend(name_set(rng, nnames));
    let (strtab, offs) = build_strtab(&names);
    let plain = rng.below(3) == 0;
    let syms: Vec<SymSpec> = names.iter().enumerate().map(|(i, n)| if plain { default_sym(n, i) } else { rand_sym(rng, n, i) }).collect();
    let symtab = build_symtab(is64, le, &syms, &offs);
    // chains threaded newest-first (ld), oldest-first, or in a random order: all are gABI-conformant
    let hash = match rng.below(3) {
        0 => build_sysv_hash(le, nbucket, &names),
        1 => build_sysv_hash_ordered(le, nbucket, &names, 1, &[]),
        _ => {
            let mut perm: Vec<usize> = (1..names.len()).collect();
            for i in (1..perm.len()).rev() { let j = rng.below(i as u64 + 1) as usize; perm.swap(i, j); }
            build_sysv_hash_ordered(le, nbucket, &names, 2, &perm)
        }
    };
    HashCase { symtab, strtab, hash, names, first_hashed: 1 }
}

pub fn build_gnu_case(rng: &mut Rng, is64: bool, le: bool, nnames: usize, nbucket: u32, nbloom: u32,
                      shift: u32, symoffset: u32) -> HashCase {
    let mut names = vec![vec![]];
    names.extend(name_set(rng, nnames));
    let symoffset = symoffset.max(1).min(names.len() as u32);
    let (hash, order) = build_gnu_hash(is64, le, nbucket, nbloom, shift, symoffset, &names);
    let ordered: Vec<Vec<u8>> = order.iter().map(|&i| names[i].clone()).collect();
    let (strtab, offs) = build_strtab(&ordered);
    let plain = rng.below(3) == 0;
    let syms: Vec<SymSpec> = ordered.iter().enumerate().map(|(i, n)| if plain { default_sym(n, i) } else { rand_sym(rng, n, i) }).collect();
    let symtab = build_symtab(is64, le, &syms, &offs);
    HashCase { symtab, strtab, hash, names: ordered, first_hashed: symoffset as usize }
}

/// the same constructions over a caller-chosen name set (collision families, names with extreme hash values)
pub fn build_sysv_case_named(rng: &mut Rng, is64: bool, le: bool, given: &[Vec<u8>], nbucket: u32, order: u64) -> HashCase {
    let mut names = vec![vec![]];
    names.extend(given.iter().cloned());
    let (strtab, offs) = build_strtab(&names);
    let syms: Vec<SymSpec> = names.iter().enumerate().map(|(i, n)| default_sym(n, i)).collect();
    let symtab = build_symtab(is64, le, &syms, &offs);
    let hash = match order % 3 {
        0 => build_sysv_hash(le, nbucket, &names),
        1 => build_sysv_hash_ordered(le, nbucket, &names, 1, &[]),
        _ => {
            let mut perm: Vec<usize> = (1..names.len()).collect();
            for i in (1..perm.len()).rev() { let j = rng.below(i as u64 + 1) as usize; perm.swap(i, j); }
            build_sysv_hash_ordered(le, nbucket, &names, 2, &perm)
        }
    };
    HashCase { symtab, strtab, hash, names, first_hashed: 1 }
}

pub fn build_gnu_case_named(is64: bool, le: bool, given: &[Vec<u8>], nbucket: u32, nbloom: u32, shift: u32, symoffset: u32) -> HashCase {
    let mut names = vec![vec![]];
    names.extend(given.iter().cloned());
    let symoffset = symoffset.max(1).min(names.len() as u32);
    let (hash, order) = build_gnu_hash(is64, le, nbucket, nbloom, shift, symoffset, &names);
    let ordered: Vec<Vec<u8>> = order.iter().map(|&i| names[i].clone()).collect();
    let (strtab, offs) = build_strtab(&ordered);
    let syms: Vec<SymSpec> = ordered.iter().enumerate().map(|(i, n)| default_sym(n, i)).collect();
    let symtab = build_symtab(is64, le, &syms, &offs);
    HashCase { symtab, strtab, hash, names: ordered, first_hashed: symoffset as usize }
}

/// names whose hashes collide in full (same 32-bit GNU hash / same 28-bit SysV hash), names whose GNU hash is 0 or 1
/// (a chain word of zero is a legitimate entry), names that saturate the running SysV hash
pub fn collision_family(gnu: bool) -> Vec<Vec<u8>> {
    let v: Vec<&[u8]> = if gnu {
        vec![b"ab", b"bA", b"foo_ab_bar", b"foo_bA_bar", b"get_value", b"get_vbKue", b"get_valvD", b"agmtavdw", b"axakfuqj", b"agmtavdx", b"plain", b"other",
             b"tick", b"tick\x01", b"tock\x01\x01", b"tock\x01", b"caf\xe9", b"caf", b"x\xe2\x82", b"x"]
    } else {
        vec![b"aq", b"ba", b"init_aq", b"init_ba", b"x1", b"wA", b"dFykHtPlnC", b"pIikL1wOy", b"plain", b"other",
             b"tick", b"tick\x01", b"tock\x01\x01", b"tock\x01", b"caf\xe9", b"caf", b"x\xe2\x82", b"x"]
    };
    v.into_iter().map(|x| x.to_vec()).collect()
}

fn absent_names(rng: &mut Rng, present: &[Vec<u8>], nbucket: u32, gnu: bool) -> Vec<Vec<u8>> {
    let mut v = vec![];
    let is_present = |n: &Vec<u8>| present.iter().any(|p| p == n);
    // random absent
    for _ in 0..3 {
        let n = rand_name(rng);
        if !is_present(&n) { v.push(n); }
    }
    // prefix / extension of a present name
    if let Some(p) = present.iter().find(|p| p.len() >= 2) {
        let mut a = p.clone(); a.pop();
        if !is_present(&a) { v.push(a); }
        let mut b = p.clone(); b.push(b'x');
        if !is_present(&b) { v.push(b); }
    }
    // same-bucket absent names by brute force
    if nbucket > 0 && !present.is_empty() {
        let target = present[rng.below(present.len() as u64) as usize].clone();
        let h = |n: &[u8]| if gnu { ref_gnu_hash(n) } else { ref_sysv_hash(n) };
        let tb = h(&target) % nbucket;
        let mut tries = 0;
        while tries < 400 {
            tries += 1;
            let n = rand_name(rng);
            if h(&n) % nbucket == tb && !is_present(&n) { v.push(n); break; }
        }
    }
    // full-hash collisions for djb2
    if gnu {
        for c in [&b"ab"[..], b"bA", b"c "] {
            let c = c.to_vec();
            if !is_present(&c) { v.push(c); }
        }
    }
    if !is_present(&vec![]) || true { /* the empty name is always "present" as symbol 0's name */ }
    v
}

pub fn gen_hash(kind: &str, rng: &mut Rng, n: usize, thorough: bool) -> Vec<Case> {
    let gnu = kind == "gnu";
    let mut out = vec![];
    // hash function: exhaustive strings up to length 3 over a 16-symbol alphabet (thorough), sampled otherwise
    let alpha: [u8; 16] = [0x00, 0x01, b'a', b'b', b'z', b'A', b'_', b'0', 0x7f, 0x80, 0x81, 0xc3, 0xe9, 0xf0, 0xfe, 0xff];
    let maxl = if thorough { 3 } else { 2 };
    for l in 0..=maxl {
        for code in 0..16usize.pow(l as u32) {
            let mut c = code;
            let s: Vec<u8> = (0..l).map(|_| { let x = alpha[c % 16]; c /= 16; x }).collect();
            out.push((format!("hashfn {} {}", kind, hex(&s)), "-".into()));
        }
    }
    for _ in 0..200 {
        let l = rng.range(4, 40) as usize;
        let s: Vec<u8> = (0..l).map(|_| match rng.below(4) { 0 => rng.range(0x80, 0xff) as u8, _ => rng.range(0x20, 0x7e) as u8 }).collect();
        out.push((format!("hashfn {} {}", kind, hex(&s)), "-".into()));
    }
    // inputs that drive the running hash to its extremes: runs of one byte value (0xff, 0x7f, 0x0f, 0x80, 0x01, 0x00) of
    // every length up to 24, a saturating prefix followed by each interesting byte, and the collision / zero-hash families
    for b in [0xffu8, 0x7f, 0x0f, 0x80, 0x01, 0x00, 0xf0, b'z'] {
        for l in 1..=24usize {
            out.push((format!("hashfn {} {}", kind, hex(&vec![b; l])), "extreme".into()));
        }
        for l in [6usize, 7, 8] {
            for last in [0x00u8, 0x01, 0x0f, 0x10, 0x7f, 0x80, 0xf0, 0xff] {
                let mut v = vec![b; l]; v.push(last);
                out.push((format!("hashfn {} {}", kind, hex(&v)), "extreme".into()));
            }
        }
    }
    for nm in collision_family(gnu) {
        out.push((format!("hashfn {} {}", kind, hex(&nm)), "extreme".into()));
    }
    // tables over the collision family: every member looked up, alone and in sequences on one table value (a lookup is a
    // pure function of its arguments: no answer may depend on the lookups made before it), with absent twins in between
    for (ci, (is64, le)) in [(false, false), (false, true), (true, false), (true, true)].into_iter().enumerate() {
        let fam = collision_family(gnu);
        for nbucket in [1u32, 2, 3, 7] {
            let case = if gnu { build_gnu_case_named(is64, le, &fam, nbucket, 2, 5 + nbucket, 1) }
                       else { build_sysv_case_named(rng, is64, le, &fam, nbucket, ci as u64 + nbucket as u64) };
            for nm in &fam {
                out.push((format!("{} {} {} {} {} {} {}", kind, le as u8, cls(is64), hex(&case.symtab), hex(&case.strtab), hex(nm), hex(&case.hash)), "wf=1|present|family".into()));
            }
            let absent: Vec<Vec<u8>> = if gnu { vec![b"ba".to_vec(), b"Ab".to_vec()] } else { vec![b"bb".to_vec(), b"qa".to_vec()] };
            let mut seq: Vec<Vec<u8>> = vec![];
            for w in fam.windows(2) { seq.push(w[0].clone()); seq.push(w[1].clone()); seq.push(w[0].clone()); }
            seq.extend(absent.iter().cloned());
            seq.extend(fam.iter().rev().cloned());
            let joined: Vec<String> = seq.iter().map(|n| hex(n)).collect();
            out.push((format!("{}m {} {} {} {} {} {}", kind, le as u8, cls(is64), hex(&case.symtab), hex(&case.strtab), joined.join("."), hex(&case.hash)), "family|sequence".into()));
            // one name a hundred times, then the others: a threshold on the number of lookups made on one table value
            let mut many: Vec<String> = vec![hex(&fam[0]); 100];
            many.extend(fam.iter().map(|n| hex(n)));
            out.push((format!("{}m {} {} {} {} {} {}", kind, le as u8, cls(is64), hex(&case.symtab), hex(&case.strtab), many.join("."), hex(&case.hash)), "family|many".into()));
        }
    }
    for k in 0..n {
        let is64 = rng.below(2) == 0;
        let le = rng.below(2) == 0;
        let nnames = match rng.below(5) { 0 => 0, 1 => rng.below(4) as usize, 2 if thorough => rng.below(300) as usize, _ => rng.below(40) as usize };
        let nbucket = match rng.below(6) { 0 => 1, 1 => 2, _ => rng.range(1, (nnames as u64).max(2) + 2) as u32 };
        let case = if gnu {
            let nbloom = *rng.pick(&[1u32, 2, 4, 8, 16, 64]);
            let shift = rng.below(32) as u32;
            let symoffset = rng.range(1, (nnames as u64 / 3).max(1) + 1) as u32;
            build_gnu_case(rng, is64, le, nnames, nbucket, nbloom, shift, symoffset)
        } else {
            build_sysv_case(rng, is64, le, nnames, nbucket)
        };
        let hashed: Vec<Vec<u8>> = case.names[case.first_hashed.min(case.names.len())..].to_vec();
        let mut queries: Vec<(Vec<u8>, &str)> = vec![];
        let step = (hashed.len() / 6).max(1);
        for (i, nm) in hashed.iter().enumerate() {
            if i % step == 0 { queries.push((nm.clone(), "present")); }
        }
        let all_names: Vec<Vec<u8>> = case.names.clone();
        for a in absent_names(rng, &hashed, nbucket, gnu) {
            // names of unhashed symbols (index < symoffset) are "absent" from the hash table too
            if !hashed.iter().any(|p| *p == a) {
                // for sysv every symbol ≥ 1 is hashed; a name equal to an unhashed GNU symbol is absent
                let _ = &all_names;
                queries.push((a, "absent"));
            }
        }
        let corrupt = k % 5 == 4;
        let mut hashb = case.hash.clone();
        let (mut symb, mut strb) = (case.symtab.clone(), case.strtab.clone());
        if corrupt {
            for _ in 0..rng.range(1, 4) {
                match rng.below(4) {
                    0 if !symb.is_empty() => { let p = rng.below(symb.len() as u64) as usize; symb[p] = rng.next() as u8; }
                    1 if !strb.is_empty() => { let p = rng.below(strb.len() as u64) as usize; strb[p] = rng.next() as u8; }
                    _ if !hashb.is_empty() => {
                        let p = (rng.below(hashb.len() as u64 / 4 + 1) * 4) as usize;
                        let v = rng.interesting();
                        let pp = p.min(hashb.len().saturating_sub(4));
                        put_at(&mut hashb, pp, le, 4, v & 0xffff_ffff);
                    }
                    _ => {}
                }
            }
            if rng.chance(1, 4) && hashb.len() > 4 { let cut = rng.below(hashb.len() as u64) as usize; hashb.truncate(cut); }
        }
        for (q, presence) in queries {
            let ann = if corrupt { "wf=0".to_string() } else { format!("wf=1|{}", presence) };
            out.push((
                format!("{} {} {} {} {} {} {}", kind, le as u8, cls(is64), hex(&symb), hex(&strb), hex(&q), hex(&hashb)),
                ann,
            ));
        }
    }
    // long chains: one bucket (or two) holding 64 / 65 / 66 / 130 symbols — walks that pass any small fixed step count;
    // queried with the deepest and the shallowest symbol and with absent names
    for nn in [64usize, 65, 66, 130] {
        for nb in [1u32, 2] {
            let is64 = nn % 2 == 0;
            let le = nb == 1;
            let case = if gnu { build_gnu_case(rng, is64, le, nn, nb, 1, 3, 1) } else { build_sysv_case(rng, is64, le, nn, nb) };
            let hashed: Vec<Vec<u8>> = case.names[case.first_hashed.min(case.names.len())..].to_vec();
            let mut qs: Vec<(Vec<u8>, &str)> = vec![(b"absent-name-1".to_vec(), "absent"), (b"zz-absent".to_vec(), "absent")];
            if let (Some(a), Some(b)) = (hashed.first(), hashed.last()) {
                if !qs.iter().any(|q| q.0 == *a) { qs.push((a.clone(), "present")); }
                if !qs.iter().any(|q| q.0 == *b) { qs.push((b.clone(), "present")); }
            }
            qs.retain(|q| q.1 == "present" || !hashed.iter().any(|p| *p == q.0));
            for (q, presence) in qs {
                out.push((format!("{} {} {} {} {} {} {}", kind, le as u8, cls(is64), hex(&case.symtab), hex(&case.strtab), hex(&q), hex(&case.hash)),
                          format!("wf=1|{}|long-chain", presence)));
            }
        }
    }
    // header-field sweep: every header word of a well-formed table set to each boundary value — both classes and byte
    // orders (the bloom word width, hence every shift and modulus by it, depends on the class), and once more with a
    // saturated bloom filter so that every query gets past the filter to the code behind it
    for (is64, le) in [(false, false), (false, true), (true, false), (true, true)] {
        let case = if gnu { build_gnu_case(rng, is64, le, 9, 3, 2, 5, 2) } else { build_sysv_case(rng, is64, le, 9, 3) };
        let nwords = if gnu { 4 } else { 2 };
        let mut variants: Vec<Vec<u8>> = vec![case.hash.clone()];
        if gnu {
            let mut sat = case.hash.clone();
            let nbloom = crate::enc::get(&sat[8..12], le, 4) as usize;
            let wsz = if is64 { 8 } else { 4 };
            for b in sat.iter_mut().skip(16).take(nbloom * wsz) { *b = 0xff; }
            variants.push(sat);
        }
        for (vi, base) in variants.iter().enumerate() {
            for w in 0..nwords {
                for v in [0u64, 1, 2, 31, 32, 33, 38, 63, 64, 65, 95, 96, 0x7fff_ffff, 0x8000_0000, 0xffff_fffe, 0xffff_ffff] {
                    let mut h = base.clone();
                    put_at(&mut h, w * 4, le, 4, v);
                    for q in [&b"absent"[..], &case.names[case.names.len() - 1][..]] {
                        out.push((format!("{} {} {} {} {} {} {}", kind, le as u8, cls(is64), hex(&case.symtab), hex(&case.strtab), hex(q), hex(&h)),
                                  if vi == 0 { "wf=0|header-sweep".into() } else { "wf=0|header-sweep|saturated-bloom".into() }));
                    }
                }
            }
        }
    }
    // adversarial chains for termination (C16): cyclic SysV chains of every length, GNU chains without stop bit
    if !gnu {
        for cyc in (1..=(if thorough { 24 } else { 8 })).chain([70usize, 129]) {
            let is64 = cyc % 2 == 0;
            let le = cyc % 3 != 0;
            let nsym = cyc + 2;
            let mut names = vec![vec![]];
            for i in 1..nsym { names.push(format!("s{}", i).into_bytes()); }
            let (strtab, offs) = build_strtab(&names);
            let syms: Vec<SymSpec> = names.iter().enumerate().map(|(i, n)| default_sym(n, i)).collect();
            let symtab = build_symtab(is64, le, &syms, &offs);
            // one bucket; chain: 1 -> 2 -> … -> cyc -> 1 (cycle of length cyc)
            let mut h = vec![];
            put(&mut h, le, 4, 1);
            put(&mut h, le, 4, nsym as u64);
            put(&mut h, le, 4, 1); // bucket[0] = 1
            for i in 0..nsym {
                let nxt = if i == 0 { 0 } else if i == cyc { 1 } else if i < cyc { i + 1 } else { 0 };
                put(&mut h, le, 4, nxt as u64);
            }
            out.push((format!("sysv {} {} {} {} {} {}", le as u8, cls(is64), hex(&symtab), hex(&strtab), hex(b"absent-name"), hex(&h)), "wf=0|adversarial".into()));
            // the same cycle through symbols of every type (section and file symbols included)
            for ty in [3u8, 4, 0, 6] {
                let syms2: Vec<SymSpec> = names.iter().enumerate().map(|(i, n)| { let mut s = default_sym(n, i); if i >= 1 { s.info = (s.info & 0xf0) | ty; } s }).collect();
                let symtab2 = build_symtab(is64, le, &syms2, &offs);
                out.push((format!("sysv {} {} {} {} {} {}", le as u8, cls(is64), hex(&symtab2), hex(&strtab), hex(b"absent-name"), hex(&h)), "wf=0|adversarial".into()));
            }
        }
    } else {
        // soundness with a queried name that contains a NUL: `s\0t` where `t` is the string that follows `s` in the
        // string table, on a table whose chain entry for `s` is forged to carry the query's hash (one bucket, bloom all ones)
        for k in 0..6usize {
            let is64 = k % 2 == 0;
            let le = k % 3 != 0;
            let names: Vec<Vec<u8>> = vec![vec![], b"memcpy".to_vec(), b"aprfigg".to_vec(), b"init".to_vec(), b"zz".to_vec()];
            let (strtab, offs) = build_strtab(&names);
            let syms: Vec<SymSpec> = names.iter().enumerate().map(|(i, n)| default_sym(n, i)).collect();
            let symtab = build_symtab(is64, le, &syms, &offs);
            let target = 1 + k % 3;
            let mut q = names[target].clone();
            q.push(0);
            q.extend(&names[target + 1]);
            let hq = ref_gnu_hash(&q);
            let mut h = vec![];
            put(&mut h, le, 4, 1); put(&mut h, le, 4, 1); put(&mut h, le, 4, 1); put(&mut h, le, 4, (k % 7) as u64);
            put(&mut h, le, if is64 { 8 } else { 4 }, u64::MAX);
            put(&mut h, le, 4, 1);
            for i in 1..names.len() {
                let real = ref_gnu_hash(&names[i]);
                let v = if i == target { hq } else { real };
                let stop = if i + 1 == names.len() { 1 } else { 0 };
                put(&mut h, le, 4, ((v & !1) | stop) as u64);
            }
            out.push((format!("gnu {} {} {} {} {} {}", le as u8, cls(is64), hex(&symtab), hex(&strtab), hex(&q), hex(&h)), "wf=0|forged-nul".into()));
            // and the plain name, still found
            out.push((format!("gnu {} {} {} {} {} {}", le as u8, cls(is64), hex(&symtab), hex(&strtab), hex(&names[4]), hex(&h)), "wf=0|forged-nul".into()));
        }
        for len in [1usize, 2, 5, 17, 64] {
            let is64 = len % 2 == 0;
            let le = true;
            let mut names = vec![vec![]];
            for i in 1..=len { names.push(format!("g{}", i).into_bytes()); }
            let (strtab, offs) = build_strtab(&names);
            let syms: Vec<SymSpec> = names.iter().enumerate().map(|(i, n)| default_sym(n, i)).collect();
            let symtab = build_symtab(is64, le, &syms, &offs);
            let q = b"zzz-absent".to_vec();
            let hq = ref_gnu_hash(&q);
            let mut h = vec![];
            put(&mut h, le, 4, 1); put(&mut h, le, 4, 1); put(&mut h, le, 4, 1); put(&mut h, le, 4, 0);
            put(&mut h, le, if is64 { 8 } else { 4 }, u64::MAX); // bloom: all ones
            put(&mut h, le, 4, 1); // bucket[0] = 1
            for _ in 0..len { put(&mut h, le, 4, (hq & !1) as u64); } // same hash, never a stop bit
            out.push((format!("gnu {} {} {} {} {} {}", le as u8, cls(is64), hex(&symtab), hex(&strtab), hex(&q), hex(&h)), "wf=0|adversarial".into()));
        }
    }
    // directed soundness cases for both kinds, on a table that lets every query reach every symbol (one bucket, all
    // symbols on its chain/run; GNU: bloom all ones and each chain word forged to the query's hash):
    //  (a) a queried name with an interior NUL that equals two adjacent string-table entries read as one byte run;
    //  (b) candidates whose name cannot be read (st_name out of range, unterminated tail, empty string table) queried
    //      with the empty name and with an ordinary one — an unreadable name is an error or a non-match, never a hit.
    for k in 0..12usize {
        let is64 = k % 2 == 0;
        let le = k % 3 != 0;
        let names: Vec<Vec<u8>> = vec![vec![], b"memset".to_vec(), b"memcpy".to_vec(), b"use_memset".to_vec(), b"zz".to_vec()];
        let (mut strtab, mut offs) = build_strtab(&names);
        let syms: Vec<SymSpec> = names.iter().enumerate().map(|(i, n)| default_sym(n, i)).collect();
        let mut queries: Vec<Vec<u8>> = vec![];
        let ann;
        if k < 6 {
            let target = 1 + k % 3;
            let mut q = names[target].clone();
            q.push(0);
            q.extend(&names[target + 1]);
            if k >= 3 { q.push(0); q.extend(&names[(target + 2).min(4)]); }
            queries.push(q);
            queries.push(names[4].clone());
            ann = "wf=0|forged-nul";
        } else {
            let victim = 1 + k % 4;
            match k % 3 {
                0 => { offs[victim] = strtab.len() as u32 + 5; }
                1 => { strtab.pop(); strtab.extend(b"tail"); offs[victim] = strtab.len() as u32 - 4; }
                _ => { strtab.clear(); }
            }
            queries.push(vec![]);
            queries.push(b"tail".to_vec());
            queries.push(names[victim].clone());
            ann = "wf=0|unreadable-name";
        }
        let symtab = build_symtab(is64, le, &syms, &offs);
        for q in queries {
            let mut h = vec![];
            if gnu {
                let hq = ref_gnu_hash(&q);
                put(&mut h, le, 4, 1); put(&mut h, le, 4, 1); put(&mut h, le, 4, 1); put(&mut h, le, 4, (k % 7) as u64);
                put(&mut h, le, if is64 { 8 } else { 4 }, u64::MAX);
                put(&mut h, le, 4, 1);
                for i in 1..names.len() {
                    let stop = if i + 1 == names.len() { 1 } else { 0 };
                    put(&mut h, le, 4, ((hq & !1) | stop) as u64);
                }
            } else {
                put(&mut h, le, 4, 1);
                put(&mut h, le, 4, names.len() as u64);
                put(&mut h, le, 4, 1);
                for i in 0..names.len() { put(&mut h, le, 4, if i == 0 || i + 1 == names.len() { 0 } else { (i + 1) as u64 }); }
            }
            out.push((format!("{} {} {} {} {} {} {}", kind, le as u8, cls(is64), hex(&symtab), hex(&strtab), hex(&q), hex(&h)), ann.into()));
        }
    }
    out
}

// ------------------------------------------------------------------------------------------
// version records
// ------------------------------------------------------------------------------------------

pub struct VerModel {
    pub needs: Vec<VerNeedSpec>,
    pub defs: Vec<VerDefSpec>,
    pub versym: Vec<u16>,
    pub strtab: Vec<u8>,
    pub str_offs: Vec<(Vec<u8>, u32)>,
}

pub fn rand_ver_model(rng: &mut Rng, thorough: bool) -> VerModel {
    let nneeds = if thorough { rng.below(41) } else { rng.below(5) } as usize;
    let ndefs = if thorough { rng.below(41) } else { rng.below(5) } as usize;
    // version indexes are 15-bit: usually small, sometimes right below 2^15 (where, with the hidden bit, the raw
    // versym value is ≥ 0xff00)
    let mut next_idx: u16 = if rng.chance(1, 4) { 0x7f00 - rng.below(3) as u16 } else { 2 };
    let first_idx = next_idx;
    let mut strings: Vec<Vec<u8>> = vec![];
    let mut defs = vec![];
    for _ in 0..ndefs {
        let nn = rng.range(1, 5) as usize;
        let names: Vec<Vec<u8>> = (0..nn).map(|_| { let mut s = b"VERS_".to_vec(); s.extend(rand_name(rng)); s }).collect();
        strings.extend(names.clone());
        let ndx = if rng.chance(1, 8) { 1 } else { let i = next_idx; next_idx += 1; i };
        defs.push(VerDefSpec { flags: rng.below(4) as u16, ndx, hash: rng.next() as u32, names });
    }
    let mut needs = vec![];
    for _ in 0..nneeds {
        let file = { let mut s = b"lib".to_vec(); s.extend(rand_name(rng)); s.extend(b".so"); s };
        strings.push(file.clone());
        let na = if thorough { rng.below(21) } else { rng.below(4) } as usize;
        let mut auxs = vec![];
        for _ in 0..na {
            let name = { let mut s = b"GLIBC_".to_vec(); s.extend(rand_name(rng)); s };
            strings.push(name.clone());
            let other = if rng.chance(1, 10) && next_idx > first_idx { rng.range(first_idx as u64, next_idx as u64 - 1) as u16 } else { let i = next_idx; next_idx += 1; i };
            auxs.push((name, rng.next() as u32, rng.below(4) as u16, other));
        }
        needs.push(VerNeedSpec { file, auxs });
    }
    let (strtab, offs) = build_strtab(&strings);
    let str_offs: Vec<(Vec<u8>, u32)> = strings.iter().cloned().zip(offs).collect();
    let nsyms = rng.range(1, 24) as usize;
    let versym: Vec<u16> = (0..nsyms)
        .map(|_| {
            let base = match rng.below(6) {
                0 => 0u16,
                1 => 1,
                2 => (next_idx + rng.below(5) as u16) & 0x7fff, // unknown
                _ => if next_idx > first_idx { rng.range(first_idx as u64, next_idx as u64 - 1) as u16 } else { 1 },
            };
            if rng.chance(1, 3) { base | 0x8000 } else { base }
        })
        .collect();
    VerModel { needs, defs, versym, strtab, str_offs }
}

pub fn gen_symver(rng: &mut Rng, n: usize, thorough: bool) -> Vec<Case> {
    let mut out = vec![];
    for k in 0..n {
        let is64 = rng.below(2) == 0;
        let le = rng.below(2) == 0;
        let m = rand_ver_model(rng, thorough && k % 4 == 0);
        let str_off = |s: &[u8]| -> u32 { m.str_offs.iter().find(|(n, _)| n == s).map(|x| x.1).unwrap_or(0) };
        let interleaved = rng.below(2) == 0;
        let gap = if rng.below(3) == 0 { (rng.below(4) * 4) as usize } else { 0 };
        let mut needb = build_verneed(le, &m.needs, &str_off, interleaved, gap);
        let mut defb = build_verdef(le, &m.defs, &str_off, interleaved, gap);
        let mut vs = vec![];
        for v in &m.versym { put(&mut vs, le, 2, *v as u64); }
        let mut idxs: Vec<String> = (0..m.versym.len() + 2).map(|i| i.to_string()).collect();
        idxs.push(u64::MAX.to_string());
        if k % 7 == 3 {
            // many queries on one table value (a threshold on the number of lookups an object has answered): the whole
            // index list again and again, well past a hundred queries; every answer must be the first pass's answer
            let once = idxs.clone();
            while idxs.len() < 140 { idxs.extend(once.iter().cloned()); }
        }
        let has_needs = !m.needs.is_empty() || rng.chance(1, 3);
        let has_defs = !m.defs.is_empty() || rng.chance(1, 3);
        let corrupt = k % 6 == 5;
        if corrupt {
            for _ in 0..rng.range(1, 3) {
                let which = rng.below(2);
                let buf = if which == 0 { &mut needb } else { &mut defb };
                if buf.len() >= 4 {
                    let p = (rng.below(buf.len() as u64 / 4) * 4) as usize;
                    let v = rng.interesting() & 0xffff_ffff;
                    put_at(buf, p, le, 4, v);
                }
            }
        }
        let needcnt = if has_needs { if corrupt && rng.chance(1, 2) { rng.interesting().to_string() } else { m.needs.len().to_string() } } else { "-".to_string() };
        let defcnt = if has_defs { if corrupt && rng.chance(1, 2) { rng.interesting().to_string() } else { m.defs.len().to_string() } } else { "-".to_string() };
        // ground truth per index
        let mut ann = String::from(if corrupt { "wf=0" } else { "wf=1" });
        if !corrupt {
            let mut parts = vec![];
            for (i, v) in m.versym.iter().enumerate() {
                let idx = v & 0x7fff;
                let hidden = v & 0x8000 != 0;
                let req = if has_needs {
                    let mut found = None;
                    'o: for nd in &m.needs {
                        for a in &nd.auxs {
                            if a.3 == idx { found = Some((nd, a)); break 'o; }
                        }
                    }
                    match found {
                        Some((nd, a)) => format!("R{}:{}:{}:{}:{}:{}", i, hex(&nd.file), hex(&a.0), a.1, a.2, hidden as u8),
                        None => format!("R{}:none", i),
                    }
                } else { format!("R{}:none", i) };
                let def = if has_defs {
                    match m.defs.iter().find(|d| d.ndx == idx) {
                        Some(d) => format!("D{}:{}:{}:{}:{}", i, d.hash, d.flags, hidden as u8,
                                           d.names.iter().map(|n| hex(n)).collect::<Vec<_>>().join("+")),
                        None => format!("D{}:none", i),
                    }
                } else { format!("D{}:none", i) };
                parts.push(req);
                parts.push(def);
            }
            ann = format!("wf=1|truth={}", parts.join(","));
        }
        out.push((
            format!("symver {} {} {} {} {} {} {} {} {} {}", le as u8, cls(is64), idxs.join("."), needcnt, defcnt,
                    hex(&vs), hex(&needb), hex(&m.strtab), hex(&defb), hex(&m.strtab)),
            ann,
        ));
        // the record iterators stand-alone on the same bytes
        // declared counts smaller (and larger) than the linked chain: the count must bound the yield
        if !corrupt {
            for c in [0usize, 1, m.needs.len().saturating_sub(1), m.needs.len() + 2] {
                out.push((format!("verit need {} {} {} 0 {}", le as u8, cls(is64), c, hex(&needb)), "-".into()));
            }
            for c in [0usize, 1, m.defs.len().saturating_sub(1), m.defs.len() + 2] {
                out.push((format!("verit def {} {} {} 0 {}", le as u8, cls(is64), c, hex(&defb)), "-".into()));
            }
            if !m.needs.is_empty() && !m.needs[0].auxs.is_empty() {
                let first_aux = if interleaved { (16 + gap) * m.needs.len() } else { 16 + gap };
                for c in [0usize, 1, m.needs[0].auxs.len().saturating_sub(1), m.needs[0].auxs.len() + 2] {
                    out.push((format!("verit needaux {} {} {} {} {}", le as u8, cls(is64), c, first_aux, hex(&needb)), "-".into()));
                }
            }
            if !m.defs.is_empty() && !m.defs[0].names.is_empty() {
                let first_aux = if interleaved { (20 + gap) * m.defs.len() } else { 20 + gap };
                for c in [0usize, 1, m.defs[0].names.len().saturating_sub(1), m.defs[0].names.len() + 2] {
                    out.push((format!("verit defaux {} {} {} {} {}", le as u8, cls(is64), c, first_aux, hex(&defb)), "-".into()));
                }
            }
        }
        out.push((format!("verit need {} {} {} 0 {}", le as u8, cls(is64), if has_needs { needcnt.clone() } else { "3".into() }, hex(&needb)), "-".into()));
        out.push((format!("verit def {} {} {} 0 {}", le as u8, cls(is64), if has_defs { defcnt.clone() } else { "3".into() }, hex(&defb)), "-".into()));
    }
    // adversarial link structures (C16/C01): next = 0, self-pointing, overlapping, absurd counts, huge offsets
    for k in 0..(if thorough { 400 } else { 80 }) {
        let le = k % 2 == 0;
        let kind = *rng.pick(&["def", "need", "defaux", "needaux"]);
        let (ty, sz) = match kind { "def" => ("VerDef", 20), "need" => ("VerNeed", 16), "defaux" => ("VerDefAux", 8), _ => ("VerNeedAux", 16) };
        let nrec = rng.range(1, 6) as usize;
        let mut buf = vec![];
        for _ in 0..nrec {
            let lay = layout(ty, false);
            let vals: Vec<u64> = lay.iter().map(|f| match f.0 {
                "vd_version" | "vn_version" => if rng.chance(9, 10) { 1 } else { rng.below(4) },
                "vd_next" | "vn_next" | "vda_next" | "vna_next" => *rng.pick(&[0u64, sz as u64, 1, 4, 8, 0xffff_ffff, 0x8000_0000, 2 * sz as u64]),
                "vd_aux" | "vn_aux" => *rng.pick(&[0u64, sz as u64, 8, 0xffff_ffff, 0x7fff_fff0]),
                "vd_cnt" | "vn_cnt" => *rng.pick(&[0u64, 1, 2, 0xffff]),
                _ => rng.below(1 << (8 * f.1.min(4)) as u64),
            }).collect();
            buf.extend(encode(ty, false, le, &vals));
        }
        let count = *rng.pick(&[0u64, 1, nrec as u64, nrec as u64 + 3, 0xffff, 0xffff_ffff, u64::MAX]);
        let off = *rng.pick(&[0u64, 0, 0, sz as u64, 1, buf.len() as u64, u64::MAX, u64::MAX - 15, (1 << 63) + 3]);
        out.push((format!("verit {} {} 64 {} {} {}", kind, le as u8, count, off, hex(&buf)), "-".into()));
    }
    // directed (C16): a record of an unknown revision, alone or behind a good record, with every kind of next link,
    // under absurd declared counts; and zero-filled sections — the work must not depend on the declared count
    for (kind, ty, sz) in [("def", "VerDef", 20usize), ("need", "VerNeed", 16)] {
        for le in [true, false] {
            for badver in [0u64, 2, 0xffff] {
                for next in [0u64, sz as u64, 1, 0xffff_ffff] {
                    for behind_good in [false, true] {
                        let lay = layout(ty, false);
                        let rec = |ver: u64, nx: u64| -> Vec<u8> {
                            let vals: Vec<u64> = lay.iter().map(|f| match f.0 {
                                "vd_version" | "vn_version" => ver,
                                "vd_next" | "vn_next" => nx,
                                "vd_aux" | "vn_aux" => 0,
                                "vd_cnt" | "vn_cnt" => 0,
                                _ => 7,
                            }).collect();
                            encode(ty, false, le, &vals)
                        };
                        let mut buf = vec![];
                        if behind_good { buf.extend(rec(1, sz as u64)); }
                        buf.extend(rec(badver, next));
                        buf.extend(rec(1, 0));
                        for count in [0xffff_ffffu64, u64::MAX, 1 << 40] {
                            out.push((format!("verit {} {} 64 {} 0 {}", kind, le as u8, count, hex(&buf)), "adversarial|unknown-revision".into()));
                        }
                    }
                }
            }
            for len in [sz, 3 * sz, 200] {
                out.push((format!("verit {} {} 64 {} 0 {}", kind, le as u8, u64::MAX, hex(&vec![0u8; len])), "adversarial|zero-filled".into()));
            }
        }
    }
    out
}
