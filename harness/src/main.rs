mod prng;
mod run;
mod show;

use std::io::{BufRead, Write};

fn main() {
    let args: Vec<String> = std::env::args().collect();
    let mode = args.get(1).map(|s| s.as_str()).unwrap_or("");
    match mode {
        "run" => {
            // quiet panics: they are an observation, not noise
            std::panic::set_hook(Box::new(|_| {}));
            let stdin = std::io::stdin();
            let stdout = std::io::stdout();
            let mut out = std::io::BufWriter::new(stdout.lock());
            for line in stdin.lock().lines() {
                let line = line.unwrap();
                let r = std::panic::catch_unwind(|| run::run_line(&line));
                match r {
                    Ok(s) => writeln!(out, "{}", s).unwrap(),
                    Err(_) => writeln!(out, "panic").unwrap(),
                }
            }
        }
        _ => {
            eprintln!("usage: elfharness run|gen|oracle …");
            std::process::exit(2);
        }
    }
}
