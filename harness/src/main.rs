mod enc;
mod abidump;
mod alloc_count;
mod generated;
mod elfbuild;
mod gen;
mod gen2;
mod gen3;
mod gen4;
mod gen5;
mod oracle;
mod oracle2;
mod oracle3;
mod oracle4;
mod prng;
mod run;
mod show;
mod stream;

use std::io::{BufRead, Write};

fn main() {
    let args: Vec<String> = std::env::args().collect();
    let mode = args.get(1).map(|s| s.as_str()).unwrap_or("");
    let flush = std::env::var("VERIF_FLUSH").is_ok();
    match mode {
        // requests on stdin (anything after a TAB is annotation and ignored) -> replies on stdout
        "run" | "run-timed" => {
            std::panic::set_hook(Box::new(|_| {}));
            let stdin = std::io::stdin();
            let stdout = std::io::stdout();
            let mut out = std::io::BufWriter::with_capacity(1 << 20, stdout.lock());
            for line in stdin.lock().lines() {
                let line = line.unwrap();
                let req = line.split('\t').next().unwrap_or("").to_string();
                let t0 = std::time::Instant::now();
                let r = std::panic::catch_unwind(|| run::run_line(&req));
                let us = t0.elapsed().as_micros();
                let s = match r {
                    Ok(s) => s,
                    Err(_) => "panic".to_string(),
                };
                if mode == "run-timed" {
                    writeln!(out, "{}\t{}", s, us).unwrap();
                } else {
                    writeln!(out, "{}", s).unwrap();
                }
                if flush {
                    out.flush().unwrap();
                }
            }
        }
        // `req TAB ann` on stdin -> OK / FAIL … per line
        "oracle" => {
            std::panic::set_hook(Box::new(|_| {}));
            let stdin = std::io::stdin();
            let stdout = std::io::stdout();
            let mut out = std::io::BufWriter::with_capacity(1 << 20, stdout.lock());
            for line in stdin.lock().lines() {
                let line = line.unwrap();
                let mut parts = line.splitn(2, '\t');
                let req = parts.next().unwrap_or("").to_string();
                let ann = parts.next().unwrap_or("-").to_string();
                let r = std::panic::catch_unwind(|| oracle::oracle_all(&req, &ann));
                match r {
                    Ok(v) if v.is_empty() => writeln!(out, "OK").unwrap(),
                    Ok(v) => writeln!(out, "{}", v.iter().map(|e| format!("FAIL {}", e.replace('\n', " "))).collect::<Vec<_>>().join(" || ")).unwrap(),
                    Err(_) => writeln!(out, "FAIL panic").unwrap(),
                }
                if flush {
                    out.flush().unwrap();
                }
            }
        }
        "dump-abi" => {
            let seed: u64 = args.get(2).and_then(|s| s.parse().ok()).unwrap_or(1);
            let thorough = args.get(3).map(|s| s == "thorough").unwrap_or(false);
            abidump::dump(seed, thorough);
        }
        // gen <stream> <seed> <n> <quick|thorough>  ->  `req TAB ann` lines
        "gen" => {
            let stream = args.get(2).map(|s| s.as_str()).unwrap_or("");
            let seed: u64 = args.get(3).and_then(|s| s.parse().ok()).unwrap_or(1);
            let n: usize = args.get(4).and_then(|s| s.parse().ok()).unwrap_or(1000);
            let thorough = args.get(5).map(|s| s == "thorough").unwrap_or(false);
            let mut rng = prng::Rng::new(seed ^ prng::Rng::new(stream.len() as u64 * 7919 + stream.bytes().map(|b| b as u64).sum::<u64>()).next());
            let cases = match stream {
                "int" => gen::gen_int(&mut rng, n, thorough),
                "parse" => gen::gen_parse(&mut rng, n, thorough),
                "table" => gen::gen_table(&mut rng, n, thorough),
                "strtab" => gen::gen_strtab(&mut rng, n, thorough),
                "utf8" => gen::gen_utf8(&mut rng, n, thorough),
                "ident" => gen::gen_ident(&mut rng, n, thorough),
                "acc" => gen::gen_acc(&mut rng, n, thorough),
                "notes" => gen2::gen_notes(&mut rng, n, thorough),
                "sysv" => gen2::gen_hash("sysv", &mut rng, n, thorough),
                "gnu" => gen2::gen_hash("gnu", &mut rng, n, thorough),
                "symver" => gen2::gen_symver(&mut rng, n, thorough),
                "verorder" => gen5::gen_verorder(&mut rng, n, thorough),
                "bigfault" => gen4::gen_bigfault(&mut rng, n, thorough),
                "ehdr" => gen::gen_ehdr(&mut rng, n, thorough),
                "filehdr" => gen4::gen_filehdr(&mut rng, n, thorough),
                "file" => gen3::gen_file(&mut rng, n, thorough),
                "bigfile" => gen3::gen_bigfile(&mut rng, n, thorough),
                "prefix" => gen3::gen_prefix(&mut rng, n, thorough),
                "sweep" => gen3::gen_sweep(&mut rng, n, thorough),
                "stream" => gen4::gen_stream(&mut rng, n, thorough),
                "streamfault" => gen4::gen_streamfault(&mut rng, n, thorough),
                "bigstream" => gen4::gen_bigstream(&mut rng, n, thorough),
                "sprefix" => gen4::gen_sprefix(&mut rng, n, thorough),
                "streamhdr" => gen4::gen_streamhdr(&mut rng, n, thorough),
                "streamcache" => gen5::gen_streamcache(&mut rng, n, thorough),
                "identstream" => gen5::gen_identstream(&mut rng, n, thorough),
                _ => {
                    eprintln!("unknown stream {}", stream);
                    std::process::exit(2);
                }
            };
            let stdout = std::io::stdout();
            let mut out = std::io::BufWriter::with_capacity(1 << 20, stdout.lock());
            for (req, ann) in cases {
                writeln!(out, "{}\t{}", req, ann).unwrap();
            }
        }
        _ => {
            eprintln!("usage: elfharness run|run-timed|oracle|gen <stream> <seed> <n> <tier>");
            std::process::exit(2);
        }
    }
}
