#!/usr/bin/env python3
"""One-off vendoring script (NOT run by the checks): builds the ABI constant reference from the
headers present in this image and writes
   /verif/ref/abi_reference.json   — rows with provenance
   /verif/lean/ElfVerif/Ref/AbiReference.lean — the same rows as a sorted Lean table
   /verif/ref/DROPPED.md            — names on which the two sources disagree (excluded)

Sources: glibc <elf.h> (/usr/include/elf.h, glibc 2.36) and LLVM 14 BinaryFormat/ELF.h,
ELFRelocs/*.def, DynamicTags.def.  A name enters the reference when at least one source defines it
and all sources that define it agree.  The table is keyed by *header* names and is independent of
the crate: nothing in it is derived from /repo.
"""
import glob, json, os, re, sys

def strip_c_comments(s):
    s = re.sub(r"/\*.*?\*/", " ", s, flags=re.S)
    s = re.sub(r"//[^\n]*", "", s)
    return s

def c_eval(expr, env):
    e = expr.strip()
    e = re.sub(r"'(.)'", lambda m: str(ord(m.group(1))), e)
    e = re.sub(r"\b(0[xX][0-9a-fA-F]+|\d+)[uUlL]+\b", r"\1", e)
    e = re.sub(r"\(\s*(unsigned\s+)?(int|long|Elf\d+_\w+|uint\d+_t|unsigned)\s*\)", "", e)
    def repl(m):
        n = m.group(0)
        if n in env:
            return str(env[n])
        raise KeyError(n)
    e2 = re.sub(r"\b[A-Za-z_][A-Za-z0-9_]*\b", repl, e)
    e2 = re.sub(r"\b0+(\d)", r"\1", e2) if not re.search(r"0[xX]", e2) else e2
    if not re.fullmatch(r"[0-9a-fA-FxX\s()+\-*|&<>~]+", e2):
        raise ValueError(e2)
    return int(eval(e2, {"__builtins__": {}}))

def glibc():
    src = strip_c_comments(open("/usr/include/elf.h").read())
    src = src.replace("\\\n", " ")
    env = {}
    pending = []
    for m in re.finditer(r"^[ \t]*#[ \t]*define[ \t]+([A-Za-z_][A-Za-z0-9_]*)[ \t]+([^\n]+)$", src, re.M):
        pending.append((m.group(1), m.group(2).strip()))
    for _ in range(4):
        rest = []
        for n, e in pending:
            if n in env:
                continue
            try:
                env[n] = c_eval(e, env)
            except Exception:
                rest.append((n, e))
        pending = rest
    return env

def llvm():
    base = "/usr/include/llvm-14/llvm/BinaryFormat/"
    env = {}
    src = strip_c_comments(open(base + "ELF.h").read())
    # enum bodies:  NAME = value,
    for m in re.finditer(r"\b([A-Z][A-Za-z0-9_]*)\s*=\s*([^,}\n]+)[,}\n]", src):
        n, e = m.group(1), m.group(2).strip()
        try:
            env.setdefault(n, c_eval(e, env))
        except Exception:
            pass
    for f in glob.glob(base + "ELFRelocs/*.def"):
        for m in re.finditer(r"ELF_RELOC\(\s*([A-Za-z0-9_]+)\s*,\s*([^)]+)\)", strip_c_comments(open(f).read())):
            try:
                env.setdefault(m.group(1), c_eval(m.group(2), env))
            except Exception:
                pass
    for m in re.finditer(r"^\s*(?:[A-Z0-9_]*DYNAMIC_TAG(?:_MARKER)?)\(\s*([A-Za-z0-9_]+)\s*,\s*([^)]+)\)",
                         strip_c_comments(open(base + "DynamicTags.def").read()), re.M):
        try:
            env.setdefault("DT_" + m.group(1), c_eval(m.group(2), env))
        except Exception:
            pass
    return env

def name_key(name):
    n = 0
    for ch in name.encode():
        n = n * 256 + ch
    return n

def main():
    g, l = glibc(), llvm()
    rows, dropped = {}, []
    for n in sorted(set(g) | set(l)):
        if not re.fullmatch(r"[A-Z][A-Z0-9_a-z]*", n):
            continue
        vals = {}
        if n in g: vals["glibc-2.36 elf.h"] = g[n]
        if n in l: vals["llvm-14 BinaryFormat"] = l[n]
        if len(set(vals.values())) == 1:
            rows[n] = {"value": list(vals.values())[0], "sources": sorted(vals)}
        else:
            dropped.append((n, vals))
    # supplement: names the crate spells differently from the headers (aliases), and values taken
    # from the ABI documents themselves where neither header defines the name
    def alias(new, old, why):
        if old in rows and new not in rows:
            rows[new] = {"value": rows[old]["value"], "sources": ["alias of %s (%s)" % (old, why)]}
    alias("SHT_GNU_VERDEF", "SHT_GNU_verdef", "glibc spells the suffix in lower case")
    alias("SHT_GNU_VERNEED", "SHT_GNU_verneed", "glibc spells the suffix in lower case")
    alias("SHT_GNU_VERSYM", "SHT_GNU_versym", "glibc spells the suffix in lower case")
    alias("VER_NDX_VERSION", "VERSYM_VERSION", "LLVM name for the 0x7fff mask")
    alias("VER_NDX_HIDDEN", "VERSYM_HIDDEN", "LLVM name for the 0x8000 flag")
    alias("ELF_NOTE_GNU_ABI_TAG_OS_LINUX", "ELF_NOTE_OS_LINUX", "glibc name")
    alias("ELF_NOTE_GNU_ABI_TAG_OS_GNU", "ELF_NOTE_OS_GNU", "glibc name")
    alias("ELF_NOTE_GNU_ABI_TAG_OS_SOLARIS2", "ELF_NOTE_OS_SOLARIS2", "glibc name")
    alias("ELF_NOTE_GNU_ABI_TAG_OS_FREEBSD", "ELF_NOTE_OS_FREEBSD", "glibc name")
    doc = {
        "ELFCOMPRESS_ZSTD": (2, "gABI, 'Compressed Section', ELFCOMPRESS_ZSTD = 2 (2022 update)"),
        "SHT_AARCH64_ATTRIBUTES": (0x70000003, "ELF for the Arm 64-bit Architecture, SHT_AARCH64_ATTRIBUTES"),
        "PT_AARCH64_ARCHEXT": (0x70000000, "ELF for the Arm 64-bit Architecture, PT_AARCH64_ARCHEXT"),
        "PT_AARCH64_UNWIND": (0x70000001, "ELF for the Arm 64-bit Architecture, PT_AARCH64_UNWIND"),
        "DT_ARM_SYMTABSZ": (0x70000001, "ELF for the Arm Architecture, DT_ARM_SYMTABSZ"),
        "DT_ARM_PREEMPTMAP": (0x70000002, "ELF for the Arm Architecture, DT_ARM_PREEMPTMAP"),
    }
    for n, (v, why) in doc.items():
        if n not in rows and not any(n == d[0] for d in dropped):
            rows[n] = {"value": v, "sources": [why]}
    here = os.path.dirname(os.path.abspath(__file__))
    json.dump(rows, open(os.path.join(here, "abi_reference.json"), "w"), indent=0, sort_keys=True)
    with open(os.path.join(here, "DROPPED.md"), "w") as f:
        f.write("# Names excluded from the ABI reference because the two header sources disagree\n\n")
        for n, v in dropped:
            f.write("- `%s`: %s\n" % (n, ", ".join("%s = %d" % kv for kv in sorted(v.items()))))
    items = sorted(((name_key(n), n, r["value"]) for n, r in rows.items()))
    L = ["-- REFERENCE (vendored once by /verif/ref/build_reference.py from glibc 2.36 <elf.h> and LLVM 14",
         "-- BinaryFormat headers; never regenerated by the checks; provenance per row in /verif/ref/abi_reference.json).",
         "namespace Elf.Ref\n"]
    chunks = [items[i:i + 64] for i in range(0, len(items), 64)]
    for ci, ch in enumerate(chunks):
        L.append("def abiRefChunk%d : List (Nat × Int) := [" % ci)
        L.append(",\n".join("  (%d, %d) /- %s -/" % (k, v, n) for k, n, v in ch))
        L.append("]")
    L.append("/-- (name as base-256 Nat, value), strictly sorted by name key -/")
    L.append("def abiRef : List (Nat × Int) :=\n  " + " ++ ".join("abiRefChunk%d" % i for i in range(len(chunks))))
    L.append("\nend Elf.Ref\n")
    open("/verif/lean/ElfVerif/Ref/AbiReference.lean", "w").write("\n".join(L))
    print("reference rows:", len(rows), "dropped:", len(dropped), "glibc:", len(g), "llvm:", len(l))

if __name__ == "__main__":
    main()
