#!/bin/bash
# usage: par_matrix.sh <nshards> [names...]   — run the seed matrix in parallel on copies of /verif and worktrees of /repo
# (tooling used while building the machinery; not part of any registered check)
N=${1:-6}; shift
names=("$@")
if [ ${#names[@]} -eq 0 ]; then names=($(ls /verif/seeded | grep -E '^C[0-9]+-[a-z]$')); fi
for k in $(seq 1 $N); do
  rm -rf /tmp/vm$k; rsync -a --exclude replays /verif/ /tmp/vm$k/
  if [ ! -d /tmp/rm$k ]; then git -C /repo worktree add --detach /tmp/rm$k HEAD -q; fi
  git -C /tmp/rm$k checkout -q -- .
  sed -i "s#elf = { path = \"/repo\" }#elf = { path = \"/tmp/rm$k\" }#" /tmp/vm$k/harness/Cargo.toml
  shard=()
  for i in "${!names[@]}"; do if [ $((i % N + 1)) -eq $k ]; then shard+=("${names[$i]}"); fi; done
  (cd /tmp/vm$k && VERIF_REPO=/tmp/rm$k python3 seed_matrix.py "${shard[@]}" > /tmp/vm$k/matrix.log 2>&1; \
   for n in "${shard[@]}"; do cp /tmp/vm$k/seeded/$n/meta.json /verif/seeded/$n/meta.json; done; echo done > /tmp/vm$k/DONE) &
done
wait
cat /tmp/vm*/matrix.log | grep -v WARNING | sort > /verif/build/matrix_last.log
grep -c "DETECTED (input)" /verif/build/matrix_last.log; grep -v "DETECTED (input)" /verif/build/matrix_last.log
