#!/usr/bin/env python3
"""Apply every kept seeded change to /repo in turn, run its property's check, undo, and record the outcome
in /verif/seeded/<id>-<variant>/meta.json.  (Used while building the machinery; not part of the checks.)"""
import json, os, re, subprocess, sys, shutil
SRC = "/tmp/seed"
VERIF = os.path.dirname(os.path.abspath(__file__))
REPO = os.environ.get("VERIF_REPO", "/repo")
DST = os.path.join(VERIF, "seeded")
confirm = {}
for log in ("/verif/build/confirm1.log", "/verif/build/confirm2.log", "/tmp/seed/confirm2.log", "/tmp/seed/confirm3.log", "/tmp/seed/confirm4.log", "/tmp/seed/confirm5.log", "/tmp/seed/confirm6.log", "/tmp/seed/confirm7.log", "/tmp/seed/confirm8.log"):
    if os.path.exists(log):
        for l in open(log):
            m = re.match(r"(C\d+)/([a-z]) suite=\[(.*?)\] nodefault_errors=(\d+) with=\[(.*?)\] without=\[(.*?)\]", l)
            if m:
                confirm[(m.group(1), m.group(2))] = {"suite_with_change": m.group(3), "no_default_features_build_errors": int(m.group(4)),
                                                     "demo_with_change": m.group(5), "demo_without_change": m.group(6)}
only = sys.argv[1:]
# import step: copy any freshly produced, confirmed change from the scratch area
if os.path.isdir(SRC):
    for pid in sorted(os.listdir(SRC)):
        if not re.fullmatch(r"C\d+", pid):
            continue
        outd = os.path.join(SRC, pid, "out")
        for v in sorted(os.listdir(outd)) if os.path.isdir(outd) else []:
            src = os.path.join(outd, v)
            if not os.path.exists(os.path.join(src, "patch.diff")) or (pid, v) not in confirm:
                continue
            dst = os.path.join(DST, "%s-%s" % (pid, v))
            os.makedirs(dst, exist_ok=True)
            for f in ("patch.diff", "demo.rs", "notes.md"):
                if os.path.exists(os.path.join(src, f)):
                    shutil.copy(os.path.join(src, f), os.path.join(dst, f))
for name in sorted(os.listdir(DST)):
    m0 = re.fullmatch(r"(C\d+)-([a-z])", name)
    if not m0:
        continue
    pid, v = m0.group(1), m0.group(2)
    if True:
        if only and name not in only and pid not in only:
            continue
        dst = os.path.join(DST, name)
        old_meta = {}
        if os.path.exists(os.path.join(dst, "meta.json")):
            try: old_meta = json.load(open(os.path.join(dst, "meta.json")))
            except Exception: old_meta = {}
        subprocess.run(["git", "-C", REPO, "checkout", "--", "."], check=True)
        ap = subprocess.run(["git", "-C", REPO, "apply", os.path.join(dst, "patch.diff")], capture_output=True, text=True)
        if ap.returncode != 0:
            print(name, "PATCH DOES NOT APPLY", ap.stderr[:200]); continue
        env = dict(os.environ, VERIF_KEEP_EVIDENCE="1")
        p = subprocess.run(["./check", pid], cwd=VERIF, capture_output=True, text=True, env=env)
        subprocess.run(["git", "-C", REPO, "checkout", "--", "."], check=True)
        lines = p.stdout.strip().splitlines()
        viol = [l for l in lines if l.startswith("VIOLATION")]
        summary = lines[-1] if lines else ""
        replay = None
        detail = None
        if viol:
            m = re.search(r"replay=(\S+)", viol[0])
            if m and os.path.exists(m.group(1)):
                r = json.load(open(m.group(1)))
                detail = {"kind": r.get("kind"), "stream": r.get("stream"), "oracle": (r.get("oracle") or "")[:300],
                          "request_line": (r.get("request_line") or "")[:200], "broken_theorems": r.get("broken_theorems")}
        notes = open(os.path.join(dst, "notes.md")).read() if os.path.exists(os.path.join(dst, "notes.md")) else ""
        needs = ""
        m = re.search(r"(?is)(needs?|manifest|trigger)[^\n]*\n(.{0,600})", notes)
        meta = {
            "property": pid,
            "variant": v,
            "breaks": "see notes.md (written by the sub-agent that produced the change, given only the property text)",
            "needs_to_manifest": (m.group(0)[:700] if m else "see notes.md"),
            "confirmed_by_me": confirm.get((pid, v), old_meta.get("confirmed_by_me", "not re-run")),
            "what_i_ran": ["/verif/confirm_seed.sh %s %s  (suite unchanged: 239 passed / the 2 baseline failures; demo fails with the change, passes without)" % (pid, v),
                           "git -C /repo apply patch.diff; ./check %s; git -C /repo checkout -- ." % pid],
            "check_result": {"exit": p.returncode, "violation_line": viol[0] if viol else None, "summary": summary, "replay": detail},
            "detected": bool(viol) and p.returncode == 1,
            "detected_with_failing_input": bool(viol) and "no-failing-input-found" not in viol[0],
        }
        json.dump(meta, open(os.path.join(dst, "meta.json"), "w"), indent=1)
        print(name, "DETECTED" if meta["detected"] else "MISSED", "(input)" if meta["detected_with_failing_input"] else "", summary[:110], flush=True)
