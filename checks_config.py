"""Per-property configuration of ./check: which request streams exercise it, how many cases per
tier, and under which observation projection model and implementation are compared."""

def S(name, quick, thorough):
    return {"name": name, "quick": quick, "thorough": thorough}

PROPS = {
    "C04": {
        "streams": [S("int", 3000, 20000)],
        "projection": "full",
        "rule": "int reads: every type at every offset 0..len+9 and usize::MAX-8..usize::MAX of buffers 0..24 bytes, "
                "boundary and random contents, both orders; thorough adds the exhaustive u8/u16 sweeps. distinct = distinct "
                "request line; non-trivial = the read succeeds or fails with a payload-carrying error",
    },
    "C02": {"streams": [S("parse", 3000, 20000)], "projection": "full"},
    "C09": {"streams": [S("table", 2000, 8000)], "projection": "full"},
    "C15": {"streams": [S("strtab", 2000, 20000), S("utf8", 500, 5000)], "projection": "full"},
    "C10": {"streams": [S("ident", 800, 4000)], "projection": "full"},
}

COMMON_NOTE = ("Trusted: Lean 4.33 kernel; axioms propext/Classical.choice/Quot.sound only (audited per theorem on every run); "
               "the Python translator (cross-checked against the compiled crate); the differential harness (sampling); "
               "core/std primitives as modelled; 64-bit usize and len <= isize::MAX.")

LEVEL_TEXT = {
    "C04": {
        "text": "Theorems over all buffers, offsets, widths and both orders: read succeeds iff off+w fits (no usize overflow), "
                "returns the unique value whose base-256 digits are the bytes in that order, advances by exactly w, leaves the "
                "cursor untouched and reports IntegerOverflow/SliceReadError exactly as specified otherwise; signed reads are "
                "two's complement; from_ei_data truth tables. Tied to endian.rs by differential runs of the real crate against "
                "the executable model on generated reads (all five specs on the implementation side).",
        "note": COMMON_NOTE + " The model of safe_from! is hand-written (17 lines) and validated behaviourally, not generated.",
        "technique": "Lean 4 proof over executable model + differential correspondence + reference decoder oracle",
    },
}

# every property not yet claimed is listed here with the reason; entries disappear as checks land
NOT_APPLICABLE = [
    {"property_id": p, "reason": "not claimed yet in this commit: model exists, theorems/correspondence for this property are still being built (nothing about the technique prevents it)"}
    for p in ["C01", "C02", "C03", "C05", "C06", "C07", "C08", "C09", "C10", "C11", "C12", "C13", "C14", "C15", "C16",
              "C17", "C18", "C19", "C20"] if p not in LEVEL_TEXT
]
PROPS = {k: v for k, v in PROPS.items() if k in LEVEL_TEXT}
