"""Per-property configuration of ./check: which request streams exercise it, how many cases per
tier, and under which observation projection model and implementation are compared."""

# thorough = the listed base count times a scale (the base counts date from the first build round and ran in ~12 min in
# total; the scaled tier runs in about half an hour on 16 cores). Small structural counts (sweeps, big files) are not scaled.
THOROUGH_SCALE = 3
HEAVY = {"prefix": 2, "sprefix": 2, "streamfault": 2}


def S(name, quick, thorough):
    t = thorough if thorough <= 3 else thorough * HEAVY.get(name, THOROUGH_SCALE)
    return {"name": name, "quick": quick, "thorough": t}

PROPS = {
    "C04": {"errkinds": False, 
        "streams": [S("int", 3000, 20000), S("ident", 100, 800), S("parse", 600, 4000), S("table", 200, 1500)],
        "projection": "full",
        "rule": "int reads: every type at every offset 0..len+9 and usize::MAX-8..usize::MAX of buffers 0..24 bytes, "
                "boundary and random contents, both orders; thorough adds the exhaustive u8/u16 sweeps. distinct = distinct "
                "request line; non-trivial = the read succeeds or fails with a payload-carrying error",
    },
    "C02": {"errkinds": False, "streams": [S("parse", 3000, 20000), S("acc", 1, 1), S("table", 600, 4000), S("ehdr", 8, 200), S("identstream", 1, 2), S("streamhdr", 1, 2), S("symver", 60, 500)],
            "projection": "full", "also_tags": ["C05", "C10", "C13"], "extra_props": ["C02Acc"]},
    "C09": {"errkinds": False, "streams": [S("table", 2000, 8000), S("streamcache", 2, 6), S("streamfault", 3, 20)], "projection": "full", "also_tags": ["C17"]},
    "C15": {"streams": [S("strtab", 2000, 20000), S("utf8", 500, 5000), S("stream", 20, 150), S("streamcache", 2, 6)], "projection": "full"},
    "C10": {"errkinds": ["BadMagic", "UnsupportedElfClass", "UnsupportedVersion", "UnsupportedElfEndianness"], "streams": [S("ident", 800, 4000), S("identstream", 1, 2), S("file", 60, 400)], "projection": "full"},
    "C03": {"errkinds": False, "streams": [S("file", 150, 1500), S("sweep", 1, 3)], "projection": "parts:open=,S,P,T=", "also_tags": ["C13"]},
    "C05": {"errkinds": False, "streams": [S("file", 150, 1500), S("sweep", 1, 3), S("bigfile", 1, 1), S("stream", 40, 300), S("streamhdr", 1, 2), S("bigstream", 1, 1), S("streamcache", 2, 6), S("filehdr", 2, 6), S("streamfault", 3, 20)],
            "projection": "parts:open=,T=,Y=,D=,d=,V=,S0=", "also_tags": ["C17"]},
    "C18": {"errkinds": False, "streams": [S("prefix", 40, 400), S("sprefix", 25, 200), S("streamfault", 3, 20)], "projection": "full", "also_tags": ["C17"]},
    "C20": {"errkinds": False, "streams": [S("file", 150, 1500), S("sweep", 1, 3), S("streamcache", 2, 6), S("streamfault", 3, 20)], "projection": "parts:open=,C=,Y=,D=,d=,N=,H=,S,P", "also_tags": ["C17"]},
    "C11": {"errkinds": False, "streams": [S("gnu", 200, 2500), S("file", 60, 400)], "projection": "parts:ok,err,new,open=,H=,C="},
    "C12": {"errkinds": False, "streams": [S("sysv", 200, 2500), S("file", 60, 400)], "projection": "parts:ok,err,new,open=,H=,C=", "also_tags": []},
    "C13": {"errkinds": False, "streams": [S("symver", 150, 1500), S("file", 80, 500), S("stream", 40, 300), S("verorder", 1, 3)], "projection": "parts:ok,err,r,d0,d1,d2,d3,d4,d5,d6,d7,d8,d9,V=,open="},
    "C14": {"errkinds": False, "streams": [S("notes", 400, 4000), S("file", 80, 500), S("stream", 20, 150), S("streamcache", 2, 6)], "projection": "parts:ok,err,open=,S,P"},
    "C16": {"streams": [S("sysv", 120, 1200), S("gnu", 120, 1200), S("symver", 120, 1200), S("notes", 200, 2000),
                        S("table", 300, 2000), S("file", 60, 400), S("stream", 20, 150), S("streamfault", 3, 20)], "projection": "status", "timed": True, "also_tags": ["C17"]},
    "C07": {"errkinds": False, "streams": [S("stream", 60, 600), S("streamhdr", 1, 2), S("streamcache", 2, 6), S("verorder", 1, 3), S("bigstream", 1, 1), S("streamfault", 3, 20)], "projection": "full", "also_tags": ["C05", "C09", "C20", "C17"]},
    "C08": {"errkinds": False, "streams": [S("stream", 60, 600), S("streamhdr", 1, 2), S("streamcache", 2, 6), S("filehdr", 2, 6), S("streamfault", 3, 20)], "projection": "full", "also_tags": ["C17"]},
    "C17": {"errkinds": False, "streams": [S("streamfault", 12, 80), S("bigfault", 1, 1)], "projection": "full"},
    "C19": {"streams": [], "projection": "full", "abi_crosscheck": True},
    "C06": {"streams": [S("file", 120, 1200), S("sweep", 1, 2), S("notes", 200, 2000), S("sysv", 80, 600), S("gnu", 80, 600),
                        S("symver", 60, 500), S("strtab", 300, 3000), S("table", 200, 1000)],
            "projection": "panic", "feature_matrix": True},
    "C01": {
        "streams": [S("int", 1500, 10000), S("parse", 1500, 8000), S("table", 800, 4000), S("strtab", 800, 6000),
                    S("ident", 400, 2000), S("notes", 300, 3000), S("sysv", 120, 1000), S("gnu", 120, 1000),
                    S("symver", 80, 600), S("file", 120, 1200), S("sweep", 1, 3), S("bigfile", 1, 1), S("filehdr", 2, 6), S("ehdr", 4, 50)],
        "projection": "panic",
        "rule": "the case sets of every other property (valid ELF of both classes/orders, structured corruptions of every header and "
                "table field incl. 0, 1, 2^31, 2^32-1, 2^63, 2^64-1, truncations, random bytes) x all public calls x indices/offsets up to "
                "usize::MAX, alignments and counts up to u64::MAX; harness built with overflow-checks and debug-assertions; each case "
                "under catch_unwind; non-trivial = reply is not a bare early error",
    },
}

COMMON_NOTE = ("Trusted: Lean 4.33 kernel; axioms propext/Classical.choice/Quot.sound only (audited per theorem on every run); "
               "the Python translator (cross-checked against the compiled crate); the differential harness (sampling); "
               "core/std primitives as modelled; 64-bit usize and len <= isize::MAX.")

LEVEL_TEXT = {
    "C04": {
        "text": "Theorems over all buffers, offsets, widths and both orders: read succeeds iff off+w fits (no usize overflow), "
                "returns the unique value whose base-256 digits are the bytes in that order, advances by exactly w, leaves the "
                "cursor untouched and reports IntegerOverflow/SliceReadError exactly as specified otherwise; signed reads are "
                "two's complement; from_ei_data truth tables; decode(encode v) = v for every width and both byte orders "
                "(decodeLE_encodeLE, decodeBE_encodeBE, decode_encode: a window holding the w bytes of v in that order reads back v); "
                "native_is_target: over the cfg(target_endian) arms of NativeEndian regenerated from endian.rs, exactly one arm is active per target and it "
                "aliases the fixed specification of that order. "
                "Tied to endian.rs by differential runs of the real crate against "
                "the executable model on generated reads (all five specs on the implementation side).",
        "note": COMMON_NOTE + " The model of safe_from! is hand-written (17 lines) and validated behaviourally, not generated.",
        "technique": "Lean 4 proof over executable model + differential correspondence + reference decoder oracle",
    },
}

LEVEL_TEXT["C15"] = {
    "text": "Theorems over all tables and offsets: get_raw succeeds iff a NUL lies at or after off inside the table and then returns "
            "exactly the window [off, first NUL) of the table (same buffer, absolute position); otherwise BadOffset (empty table or "
            "off > len) / StringTableMissingNul (incl. off = len); get = get_raw filtered by the validator, and the validator (Unicode "
            "Table 3-7 byte ranges, as core::str::from_utf8 implements) is proved equal to an independent arithmetic definition: "
            "valid_utf8_spec - it accepts exactly the concatenations of RFC 3629 encodings of Unicode scalar values (no overlong forms, "
            "no surrogates, nothing above U+10FFFF, no stray or missing continuation bytes); get_utf8_spec restates get() with it. Tied to "
            "string_table.rs by differential runs (exhaustive tables over a 4-symbol alphabet, random tables) and the validator is compared "
            "with core::str::from_utf8.",
    "note": COMMON_NOTE + " core::str::from_utf8 is modelled by validUtf8 (validated differentially, incl. all 1-2 byte sequences in thorough).",
    "technique": "Lean 4 proof over executable model (incl. validator = scalar-value encoding spec) + differential correspondence + naive-scan oracle",
}
LEVEL_TEXT["C10"] = {
    "text": "Theorem parse_ident_spec: for every buffer and every spec, parse_ident equals the ABI specification function (length, magic, "
            "version, class, data checked in that order, each defect reported with the bytes found); corollaries for each single defect; "
            "from_ei_data truth tables for all byte values; any-endian opens a file to the *same ElfBytes value* as the matching fixed spec "
            "(hence identical results of every accessor); through ElfStream over any legal reader an identification defect is reported as "
            "the same error (stream_ident_defect), a stream shorter than 16 bytes as BadOffset(16). Tied to file.rs/endian.rs by differential runs with all four Rust "
            "instantiations over all 256 values of EI_CLASS/EI_DATA/EI_VERSION and magic corruptions.",
    "note": COMMON_NOTE + " NativeEndian is modelled as LittleEndian (the build target); the harness checks cfg!(target_endian).",
    "technique": "Lean 4 proof (spec refinement) + exhaustive differential over ident bytes",
}
LEVEL_TEXT["C09"] = {
    "text": "Generic theorems over every table whose entry kind is Regular (proved by decide for the 9 generated entry programs used in "
            "tables/iterators, both classes): get(i) ok iff i < len (incl. i*size overflowing usize); next at cursor k*size yields get k "
            "and advances by size; collect = [get 0..get (len-1)] with exactly len items; is_empty iff len = 0; a finished iterator stays "
            "finished even though a failed parse moves the cursor. Entry programs are regenerated from the ParseAt bodies each run.",
    "note": COMMON_NOTE + " ParsingTable/ParsingIterator control flow is hand-modelled (validated differentially on lengths 0..k*size+size-1, indices near usize::MAX).",
    "technique": "Lean 4 proof over translator-generated entry programs + differential correspondence + chunk-decode oracle",
}

LEVEL_TEXT["C02"] = {
    "text": "Every impl ParseAt body (and FileHeader::parse_tail) is translated on each run into a straight-line program; kernel decide shows "
            "each of the 38 (structure, class) programs equals the hand-vendored ABI layout (field order, widths, signedness, widening, "
            "r_info splitters, version guards) and that size_for equals the ABI size. Generic theorems over all buffers/offsets/orders: a "
            "program that fits yields exactly the values decoded at successive ABI offsets and consumes exactly its size; zero-/sign-"
            "extension are exact; r_info (ELF32/64), st_info, st_other, version index/hidden and is_undefined split exactly as the ABI macros "
            "for every value; at structure level valsAt_encoded / parse_of_encoding: a window holding the ABI encoding of any in-range field "
            "values (each field in its width and the file's byte order, one after the other) parses back to the record built from exactly "
            "those values and consumes exactly the structure's size. The derived accessors (is_undefined, st_symtype, st_bind, st_vis, version index/"
            "local/global/hidden, d_val/d_ptr) are the translations of the Rust bodies, regenerated on every run; which fields each reads is part "
            "of the translation, and the kernel evaluates each on every byte / every halfword against the ABI macro (st_byte_table, undef_table, versym_table, "
            "decide +kernel over 256 and 65536 values), so the split theorems hold for every record and survive any semantically equal rewrite. "
            "The translator and interpreter are validated against the compiled parsers on ABI-encoded field values; the acc stream varies every field of a symbol.",
    "note": COMMON_NOTE + " Reference layouts in Ref/AbiLayouts.lean are transcribed by hand from the gABI/GNU documents.",
    "technique": "Lean 4 proof over translator-generated parse programs (kernel decide vs ABI reference) + ABI-encoder round-trip oracle",
}

LEVEL_TEXT["C01"] = {
    "text": "The model writes every Rust operation that can panic (indexing, split_at, unchecked + - % and -=) as an operation returning "
            "Out.panic exactly when Rust with overflow/debug assertions would. ~95 theorems `f args != panic` for all bytes and arguments: "
            "the six integer reads, all 19 generated struct programs (one generic theorem over the interpreter), validate_entsize, "
            "ParsingTable::get, ParsingIterator::next, StringTable get/get_raw, parse_ident (incl. short buffers, after the fix: commit), "
            "note padding/parse/iteration for every alignment, the four version-record iterators in *every* state (offset+aux and count-=1 "
            "shown overflow-free because the preceding parse succeeded), SysV/GNU hash new+find (% by bucket count/bloom size, "
            "chain_start-table_start guarded), minimal_parse and every ElfBytes accessor, get_requirement/get_definition, and draining a definition's names (SymbolNamesIterator: the walk and every yielded item). "
            "Tied to the code by differential runs of all streams under catch_unwind.",
    "note": COMMON_NOTE + " Not modelled: stack exhaustion and allocation-failure aborts (the slice parser has no recursion and no allocation), 32-bit usize.",
    "technique": "Lean 4 proof of totality over a panic-tracking executable model + differential correspondence under catch_unwind",
}

LEVEL_TEXT["C03"] = {
    "text": "Slices are windows (buf,start,stop) of the caller's buffer, so location is part of the value. Complete equations: uncompressed "
            "section data = ok [sh_offset, sh_offset+sh_size) iff the range fits without usize overflow, else SliceReadError/IntegerOverflow; "
            "SHT_NOBITS = empty; compressed = Chdr parsed at sh_offset plus payload [sh_offset+chdr_size, sh_offset+sh_size), error if shorter "
            "than the header; segment data = [p_offset, p_offset+p_filesz) and independent of p_memsz; typed views hand out section_data's "
            "window; string-table entries start at table.start+off in the same buffer; note names, descriptors and build-ids are exactly "
            "the ABI-designated sub-windows of the note section/segment window (note_windows, typed_note_windows, with C14.parse_at_spec). "
            "SectionHeader::get_data_range and ProgramHeader::get_file_data_range are translated from the Rust bodies on every run "
            "(Generated/Accessors.lean; the parameter list of the translation says which header fields they read) and proved equal to the "
            "model's range of (sh_offset, sh_size) / (p_offset, p_filesz) (section_range_is_offset_size, segment_range_is_offset_filesz). Tied to the code by comparing (ptr-base,len) of every "
            "returned slice with the model's window, and by an oracle recomputing the range from the parsed header.",
    "note": COMMON_NOTE,
    "technique": "Lean 4 proof over window-valued model + differential correspondence on pointer offsets",
}
LEVEL_TEXT["C05"] = {
    "text": "find_shdrs/find_phdrs are proved equal to the gABI location rule written with plain arithmetic: absent iff e_shoff/e_phoff = 0; "
            "count = e_shnum or shdr[0].sh_size when e_shnum = 0 (e_phnum / shdr[0].sh_info at 0xffff); BadEntsize(found,expected) unless the "
            "declared entry size is the class's generated size_for; table = window [off, off+n*size) iff it fits without overflow; the located "
            "table has exactly n entries; e_shstrndx / shdr[0].sh_link rule for the name table; entsize rejection theorems for symbol tables "
            "and the slice parser's dynamic table, and for the version-index table (versym_bad_entsize). Correspondence on generated files incl. counts crossing 0xff00/0xffff and every single-"
            "field corruption of one object per run.",
    "note": COMMON_NOTE + " The stream parser's locator (different validation order) is proved equivalent under C07 (section_headers_equiv, program_headers_equiv, open_equiv).",
    "technique": "Lean 4 proof (definition = gABI rule) + differential correspondence + builder ground-truth oracle",
}
LEVEL_TEXT["C18"] = {
    "text": "Monotonicity theorems for the prefix order on windows (same buffer, smaller stop): range reads, integer reads, every generated "
            "struct program, find_shdrs/find_phdrs, minimal_parse (prefix opens => whole file opens to the same header and the same table "
            "windows), and EVERY ElfBytes accessor: section_data, segment_data, the typed views (strtab, rel, rela, notes, dynamic), segment "
            "notes, section_headers_with_strtab, section_header_by_name, symbol_table/dynamic_symbol_table, dynamic (section and PT_DYNAMIC "
            "routes), symbol_version_table (incl. verneed/verdef records), find_common_data (loop body, scan, fallback): an Ok answer on the "
            "prefix is the answer on the whole file; corollary: error-or-same; read the other way, appending bytes changes no answer. "
            "Stream parser: stream_prefix_twin - if open_stream succeeds on a truncated stream (any schedule), opening the complete stream "
            "succeeds with the same headers, and after any history the truncated stream's state is a Twin of the complete stream's, so "
            "whatever a query answers with Ok on the truncated stream it answers on the complete one (instances for section data, symbol "
            "tables, dynamic, symbol versions, lookup by name; the remaining queries through the C17 theorems). Correspondence runs the model and the real parsers (slice and stream) on a genuinely truncated copy of each generated file at "
            "many prefix lengths (all lengths for a third of the files in thorough) and on files with appended bytes.",
    "note": COMMON_NOTE,
    "technique": "Lean 4 proof of monotonicity in the prefix order for every slice accessor + differential correspondence on every sampled prefix (slice and stream)",
}
LEVEL_TEXT["C20"] = {
    "text": "Theorems: every typed view (strtab, rel, rela, notes, dynamic, segment notes) returns UnexpectedSectionType/SegmentType(found, "
            "expected) on a type mismatch and otherwise iterates exactly section_data's window from offset 0; section_header_by_name equals "
            "`first index in table order whose NUL-terminated UTF-8 name equals the query` (entries with unreadable names skipped), proved "
            "through the iterator/get coherence of C09; the dynamic table through .dynamic equals the one through PT_DYNAMIC when both "
            "designate the same bytes. find_common_data: its section pass is a fold of the loop body over the headers in table order "
            "(common_scan_is_fold), each field holds the value computed from the LAST header of its kind (fold_field), the targeted accessors "
            "use the FIRST; with at most one section of the kind they coincide: common_symtab / common_dynsym (symbol_table() / "
            "dynamic_symbol_table() return exactly the recorded (table, strings) pair), common_dynamic_section (dynamic() = recorded table "
            "when a SHT_DYNAMIC section exists), common_dynamic_segment (otherwise the recorded table is the PT_DYNAMIC route = dynamic() of "
            "the file read without section headers), common_sysv_hash / common_gnu_hash (recorded table = new() on the section's bytes). The "
            "premise is shown necessary (two sections of a kind: last differs from first). The correspondence and a cross-comparison oracle "
            "run the same comparison on real ElfBytes.",
    "note": COMMON_NOTE,
    "technique": "Lean 4 proof (typed views, by-name = first match, find_common_data = targeted accessors under at-most-one-per-kind) + differential correspondence + accessor cross-comparison oracle",
}

LEVEL_TEXT["C11"] = {
    "text": "Theorems for any table bytes: find_sound (a returned (i,sym) is symtab[i] and the NUL-terminated string at st_name has exactly the "
            "queried bytes), gnu_hash = djb2 (h*33+c from 5381) mod 2^32 for every byte string, empty bucket array / bloom filter => None, no "
            "division by zero (C01), chain walk examines at most chain_len entries (C16). Completeness on well-formed tables (WFGnu: non-zero "
            "nbucket/nbloom, nshift<32, readable bloom words, every bucket empty or the start of a decodable run): find_wf (the answer is None "
            "when the bloom filter rejects or the bucket is empty, else the first run entry whose stored hash and name match), find_complete "
            "(a hashed symbol whose bloom bits are set and whose chain entry stores its hash is found by name), find_absent (a name carried by "
            "no entry of its bucket's run gives None, whatever it collides with); WFGnu and the hypotheses are shown inhabited by a concrete "
            "table. Layout theorems (GnuBuild.LaidOut -> laid_out_wf / laid_out_finds_every_symbol / laid_out_absent): ANY section laid out the linker's way - "
            "hashed symbols sorted by bucket, chain word = hash with the stop bit exactly on the last symbol of its bucket, bucket head = first symbol of the bucket, "
            "both bloom bits of every symbol set - is well-formed, the lookup finds every hashed symbol by name and answers None for every name no hashed symbol carries, "
            "for every number of symbols/buckets/bloom words and both classes. The correspondence runs tables built per the GNU format by an independent Rust builder over name sets with duplicates, "
            "prefixes, djb2 collisions and same-bucket absent names.",
    "note": COMMON_NOTE + " The layout predicate (LaidOut) is stated over the decoded arrays; that the Rust test builder emits that layout is checked per generated table by the harness oracle (linear scan).",
    "technique": "Lean 4 proof (soundness, completeness under WFGnu, linker layout => WFGnu and every symbol found, hash function) + differential correspondence on format-built tables + linear-scan oracle",
}
LEVEL_TEXT["C12"] = {
    "text": "Theorems for any table bytes: find_sound, empty bucket array => None, chain walk makes at most nchain steps (cyclic and self-"
            "referential chains stop). hash_eq_elf_hash: the exported sysv_hash equals the gABI elf_hash reference (32-bit unsigned long form) "
            "for every byte string (invariant: reference state = crate state mod 2^28). Completeness on well-formed tables (WFSysV: nbucket != 0, "
            "every bucket heads a decodable chain ending at index 0 no longer than nchain): find_wf (the answer is the first symbol with the "
            "queried name on the chain of bucket elf_hash(name) mod nbucket), find_complete (a symbol on its bucket's chain is found by name), "
            "find_absent (None when no chain element carries the name, collisions or not); WFSysV shown inhabited. Construction theorems (SysVBuild: the standard construction inserts symbols 1..n at the head of bucket elf_hash(name) mod nbucket): built_table_wf / built_table_finds_every_symbol / built_table_absent - every table that decodes to the construction's arrays is well-formed, every symbol is on the chain of its name's bucket (build_reach), the lookup finds every symbol by name and answers None for every name none of the n symbols carries, for every n, nbucket and set of names. The correspondence runs "
            "tables built per the gABI by an independent builder; the harness also compares sysv_hash with a C-style reference on random and "
            "exhaustive short strings.",
    "note": COMMON_NOTE + " The construction is modelled on index functions (bucket, chain); that the Rust test builder emits those arrays is checked per generated table by the harness oracle.",
    "technique": "Lean 4 proof (soundness, completeness under WFSysV, standard construction => WFSysV and every symbol found, sysv_hash = elf_hash, step bound) + differential correspondence on gABI-built tables + linear-scan / reference-hash oracle",
}
LEVEL_TEXT["C13"] = {
    "text": "Soundness theorems (any bytes): a requirement returned for symbol i is built from a Verneed record and an aux record of its chain "
            "whose vna_other equals versym[i] mod 2^15, with file/name the strings at vn_file/vna_name, hash/flags copied, hidden = bit 15; a "
            "definition comes from a Verdef with vd_ndx = versym[i] mod 2^15 and hands out that record's aux chain (count vd_cnt); indexes "
            "beyond the versym table never give a record; missing VERNEED/VERDEF section => None; sh_link/sh_info wiring of "
            "symbol_version_table. Completeness theorems on well-formed chains in ANY forward layout (NeedChain/RecChain/AuxChain: sh_info "
            "records readable at their offsets, linked by next offsets that are non-zero except possibly on the last, aux chains reached by "
            "the aux offset; nothing assumed about relative placement): get_requirement_complete (the answer is the first aux record in "
            "traversal order with vna_other = versym[i] mod 2^15, with its Verneed's file), get_definition_complete (first Verdef with that "
            "vd_ndx; its names iterator is that record's aux chain), definition_names_complete (names = strings at vda_name in chain order), "
            "requirement_absent / definition_absent (no matching record => None, local 0 / global 1 included); chains shown inhabited. The "
            "correspondence runs version models laid out contiguously, interleaved and with gaps against the builder's ground truth, and "
            "file-level queries against an independent decoder of the three sections (own sh_link string tables). From the bytes: EncNeeds / EncDefs / EncDefAuxs describe sections whose bytes are the GNU-ABI encodings of the records (revision word 1, fields in the file's byte order) linked by next/aux offsets in any forward layout; with C02's structure-level round trip they imply the chain predicates, so requirement_on_abi_layout / definition_on_abi_layout / definition_names_on_abi_layout state the completeness results directly on byte layouts.",
    "note": COMMON_NOTE + " That a given builder's output satisfies the chain predicates is checked per generated table by the oracle, not proved for a builder.",
    "technique": "Lean 4 proof (soundness on any bytes; completeness on well-formed chains in any forward layout) + differential correspondence + version-model ground truth and independent file-level decoder",
}
LEVEL_TEXT["C14"] = {
    "text": "Theorem parse_at_spec: for every buffer, cursor, class, order and non-zero alignment, one step of note iteration equals the ABI "
            "record at the cursor (12-byte header of three 32-bit words for both classes, name window, padding to align, descriptor window, "
            "padded end as next cursor) with the crate's typed reading (GNU ABI tag needs 16 bytes / build id / untyped), and fails exactly "
            "when no record fits. List level: collect_eq_layout / iteration_is_layout - the whole iteration equals `layout`, the list of "
            "records laid out back to back from offset 0, one note per record in order, ending at the first record that does not fit, for "
            "every byte string; zero_align_collect - a zero alignment yields nothing. Round trip (rawLayout_of_encoding / iterate_encoding): for any list of records (type, name bytes, descriptor bytes; sizes < 2^32), any non-zero alignment and both byte orders, iterating a window that holds encodeNotes of the list yields the typed reading of exactly those records in order - same count, same types, name and descriptor windows holding exactly the encoded bytes. padUp is the least multiple of align >= x; name_str = "
            "UTF-8 check + strip of all trailing NULs; each yield advances the cursor by >= 12. Tied to note.rs by a residue sweep over every "
            "(namesz, descsz) mod align with the swept record in middle and last position, arbitrary alignments, truncation and trailing "
            "garbage, bare 12-byte records, and an independent reference walker.",
    "note": COMMON_NOTE,
    "technique": "Lean 4 proof (step = ABI record; iteration = back-to-back layout; decode o encode = id for note sections) + differential correspondence + reference note walker",
}
LEVEL_TEXT["C16"] = {
    "text": "All loops of the model are structural recursions on explicit fuel (termination kernel-checked); theorems show the supplied fuel "
            "suffices and bound the work: version-record iterators yield <= declared count (every yield strictly decreases count; next=0 "
            "forces count 0), table iterators yield len <= bytes items, note iterators <= bytes/12, SysV walks <= nchain steps, GNU walks <= "
            "chain_len entries. Wall-clock (`completes within seconds`) cannot be a theorem: every adversarial case (cycles of every length, "
            "chains without stop bit, self-pointing/overlapping records, absurd counts) is run on the real code under a 5 s per-case "
            "threshold and a process timeout; a hang is attributed to its request line.",
    "note": COMMON_NOTE + " Partial: wall-clock time is measured, not proved.",
    "technique": "Lean 4 proof of step/yield bounds + timed differential runs on adversarial link structures",
}

LEVEL_TEXT["C07"] = {
    "text": "The stream parser is modelled separately from the slice parser (elf_stream.rs accessor by accessor, on a CachingReader over a Device "
            "whose every I/O call consumes one entry of an arbitrary schedule). Proved for every schedule and history: the cache invariant; "
            "read_bytes_refines / read_bytes_complete (reader layer = get_bytes of the slice parser on legal readers: short reads, Interrupted, "
            "no errors/EOF). open_equiv: for every content < 2^63 bytes, byte-order policy and legal schedule, open_stream succeeds exactly when "
            "minimal_parse of the same bytes succeeds, with the same file header, and the stream's section/program header vectors are exactly "
            "the entries of the slice parser's lazy tables (incl. the e_shnum=0 / PN_XNUM escapes through shdr[0]). Query level: a simulation "
            "relation Sim is established by open (open_sim), preserved by every query whatever its outcome and hence by every history "
            "(history_sim, reachable_sim: any order, any number of times), and under Sim each query that succeeds on the slice parser succeeds "
            "on the stream parser with the same content: section_data (uncompressed, NOBITS), section_data_as_strtab/rels/relas/notes, "
            "segment_data_as_notes, section_headers_with_strtab, section_header_by_name, symbol_table/dynamic_symbol_table, dynamic (scoped "
            "as the property is; the scope is shown necessary by a concrete 184-byte file), symbol_version_table. Content equality = same "
            "parser/byte order/class/cursor and SameBytes data; congruence lemmas show that everything tables, iterators, string lookups and "
            "UTF-8 validation yield depends only on those. The correspondence runs random histories with repetition under legal schedules "
            "against the model AND the real ElfBytes on the same bytes.",
    "note": COMMON_NOTE + " std::io::Read::read_exact's default loop, HashMap as a finite map and Vec are modelled, not verified.",
    "technique": "Lean 4 proof (simulation stream parser / slice parser: open + every query, all legal schedules, all histories) + differential correspondence of histories against model and ElfBytes",
}
LEVEL_TEXT["C08"] = {
    "text": "Theorems for every contents, parser state, history and reader schedule: open_stream never panics (open_never_panics) and no "
            "query panics (queries_never_panic: the expect in get_bytes always follows successful loads of the same keys, shdrs[0] is reached "
            "only with a non-empty Vec, all arithmetic is checked); every read-buffer allocation event is <= the stream length after open "
            "and after any history of queries (allocs_bounded_after_open, allocs_bounded_history; the end > stream_len guard precedes "
            "vec![0; len]); oversized requests are BadOffset before any I/O; a cached key costs no I/O; a load_bytes(s,e) leaves the stream "
            "position untouched or inside [s,e] (load_reads_only_its_range), and so does a whole section_data query "
            "(section_data_reads_only_its_range). Laziness at trace level, as theorems: query_io_is_designated - every I/O event any of the 12 queries records (each seek, read-buffer allocation, read call, completed load) belongs to a byte range that query designates (Query.designates: the passed header's range; the section-name string table named by e_shstrndx / shdr[0].sh_link; the first section of the wanted type and the string table its sh_link names; SHT_DYNAMIC, or PT_DYNAMIC when there are no section headers; the version sections found by the scan and their linked string tables) in any state, under any schedule, whatever the outcome; open_is_lazy - a successful open_stream touches, after measuring the length, only the 16 ident bytes, the rest of the file header, whole section-header-sized entries at e_shoff and whole program-header-sized entries at e_phoff. The same trace is compared as a coalesced (offset, bytes) trace "
            "between model and code and checked by an oracle. Measured, not proved: std's Vec/HashMap growth policy and the header Vecs - "
            "the size-recording global allocator asserts max single allocation <= 8*len + 8 KiB.",
    "note": COMMON_NOTE + " Partial: allocator growth policy (Vec/HashMap) is measured, not proved. Laziness of opening is proved for every outcome "
            "(open_is_lazy_whatever_it_returns: the ranges a failing open may have touched are determined by the identification and header the "
            "stream's contents hold; bad_ident_reads_ident_only).",
    "technique": "Lean 4 proof (totality of open and every query; allocation bound as an invariant of every history; extent of a load; every I/O event of every query lies in a designated range; lazy open) + recording reader / size-recording allocator correspondence",
}
LEVEL_TEXT["C17"] = {
    "text": "For every fault schedule: a failing seek or a read error / premature EOF makes load_bytes / read_exact return an error and cache "
            "nothing; no reader operation panics. Query level, for EVERY schedule (errors, early EOF, short and interrupted reads at any "
            "call): (1) no residue - the invariant WInv (every cached buffer is the file's bytes of its key range; contents untouched) holds "
            "after open_stream (open_leaves_no_residue) and survives every query of every history whatever each query returned "
            "(queries_leave_no_residue), and queries never touch the parsed headers; (2) no fabricated data - given WInv, whatever a query "
            "answers with Ok is, as a value, exactly what the same query answers on a fault-free reader over the same contents: "
            "<query>_fault_free for section_data (compressed included), the strtab/rel/rela/notes views, segment notes, "
            "section_headers_with_strtab, section_header_by_name, symbol_table/dynamic_symbol_table, dynamic, symbol_version_table, plus the "
            "read_bytes primitive; reachable_twin combines them for every state reachable from open by any history; open_fault_free: an open that succeeds under "
            "any schedule yields the headers of the fault-free open; (3) every I/O failure surfaces - Clean d d' says the schedule entries consumed between two device states contain no `fail` (seek or read) and no premature `eof` on a read: open_ok_means_no_failed_io, query_ok_means_no_failed_io (all 12 queries, any state, any schedule) and history_ok_means_no_failed_io show that an operation returns Ok only if none of its I/O calls failed (contrapositive: a failing call makes the operation return Err). Tied to the code by a "
            "fault-injecting reader driven by the same schedule as the model: a fault at every single I/O call index of every history "
            "(exhaustive over positions; error and EOF kinds, transient and permanent) plus random multi-fault schedules; oracle = the "
            "fault-free run of the real code.",
    "note": COMMON_NOTE + " The device model treats a premature Ok(0) and an error as the two failure kinds of std::io::Read; Interrupted is retried as std's read_exact does.",
    "technique": "Lean 4 proof (invariant under arbitrary fault schedules; every query's Ok answer = fault-free answer; Ok => no failed I/O call) + exhaustive single-fault injection correspondence",
}

LEVEL_TEXT["C19"] = {
    "text": "abi.rs, the 16 repr(C) structs and the to_str match arms are translated into Lean tables on every run. Kernel-evaluated "
            "(decide +kernel) over the whole tables and lifted by proved soundness lemmas: every exported integer constant that the vendored "
            "reference (glibc 2.36 <elf.h> and LLVM 14 BinaryFormat where they agree, plus documented aliases; 1128 of 1174 names) defines "
            "has the reference's value and fits its Rust type; every C struct has the ABI's size, field order and offsets; every arm of the "
            "ten symbolic-name helpers returns exactly the identifier of an exported constant with the matched value; every to_string "
            "fallback formats the number. The translator is cross-checked against the compiled crate (all constant values, size_of/offset_of!, "
            "every to_str function over its whole u8/u16 domain and over all constant values, neighbours and random values for u32/i64).",
    "note": COMMON_NOTE + " The reference tables are vendored by hand (ref/build_reference.py, ref/DROPPED.md); 46 crate constants are in neither header and are not covered.",
    "technique": "Lean 4 kernel-checked table comparison (translator-generated tables vs vendored reference) + compiled-crate cross-check",
}

LEVEL_TEXT["C06"] = {
    "text": "Partial by nature. (1) cfg logic, proved: the gate table (every cfg attribute with the item it guards, every use of std::, alloc:: "
            "or a heap-allocating name in non-test code, extern crate items, the no_std crate attribute, [features] implications) is "
            "regenerated from the sources each run; kernel-evaluated theorems over all 8 feature subsets: every compiled-in use site has its "
            "provider available; with default features disabled (and with only to_str) the crate is no_std, links neither alloc nor std, has "
            "no dependencies and compiles in no item that names std/alloc/heap types; predicted linkage table. (2) Exhaustive build matrix, "
            "measured: cargo check of all 8 subsets must succeed and the externally linked crates (rustc -Z ls=root on a nightly build) must "
            "equal the model's prediction. (3) Zero allocation, measured: a counting global allocator armed around bare slice-parser calls "
            "(open + every accessor, iterators, hash lookups, version queries) on the C01 case set must count 0; the model of the slice "
            "parser has no allocation effect by construction.",
    "note": COMMON_NOTE + " rustc is the judge of 'compiles'; allocations inside core are out of scope (core does not allocate).",
    "technique": "Lean 4 kernel-checked cfg/feature model (translator-generated) + exhaustive 8-subset build matrix + counting allocator",
}

# every property not yet claimed is listed here with the reason; entries disappear as checks land
NOT_APPLICABLE = [
    {"property_id": p, "reason": "not claimed yet in this commit: model exists, theorems/correspondence for this property are still being built (nothing about the technique prevents it)"}
    for p in ["C01", "C02", "C03", "C05", "C06", "C07", "C08", "C09", "C10", "C11", "C12", "C13", "C14", "C15", "C16",
              "C17", "C18", "C19", "C20"] if p not in LEVEL_TEXT
]
PROPS = {k: v for k, v in PROPS.items() if k in LEVEL_TEXT}
NOT_APPLICABLE = [x for x in NOT_APPLICABLE if x["property_id"] not in LEVEL_TEXT]
