#!/bin/bash
# usage: confirm_seed.sh <Cxx> <a|b>  — confirm a sub-agent's seeded change in its scratch worktree:
# suite unchanged (239 pass / 2 baseline failures), demo fails with the change and passes without.
id=$1; v=$2
wt=/tmp/seed/$id/wt; out=/tmp/seed/$id/out/$v
export CARGO_TARGET_DIR=/tmp/seed/$id/target CARGO_NET_OFFLINE=true
cd $wt || exit 2
git checkout -q -- . ; rm -f tests/demo.rs
mkdir -p tests
git apply $out/patch.diff || { echo "$id/$v: PATCH-DOES-NOT-APPLY"; exit 1; }
suite=$(cargo test --offline --lib 2>&1 | grep -E "^test result" | head -1)
nodef=$(cargo build --offline --no-default-features 2>&1 | grep -cE "^error")
cp $out/demo.rs tests/demo.rs
with=$(cargo test --offline --test demo 2>&1 | grep -E "^test result" | head -1)
git checkout -q -- .
without=$(cargo test --offline --test demo 2>&1 | grep -E "^test result" | head -1)
rm -f tests/demo.rs; rmdir tests 2>/dev/null
echo "$id/$v suite=[$suite] nodefault_errors=$nodef with=[$with] without=[$without]"
