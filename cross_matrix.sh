#!/bin/bash
# usage: cross_matrix.sh <seeded names...> — every given seeded change against ALL twenty checks, one change per parallel copy
# (tooling: which checks other than the change's own property raise an alarm, and is each such alarm legitimate?)
names=("$@"); N=${#names[@]}
for k in $(seq 1 $N); do
  n=${names[$((k-1))]}
  rm -rf /tmp/vm$k; rsync -a --exclude replays /verif/ /tmp/vm$k/
  [ -d /tmp/rm$k ] || git -C /repo worktree add --detach /tmp/rm$k HEAD -q
  git -C /tmp/rm$k checkout -q -- . ; git -C /tmp/rm$k clean -fdq
  sed -i "s#elf = { path = \"/repo\" }#elf = { path = \"/tmp/rm$k\" }#" /tmp/vm$k/harness/Cargo.toml
  (cd /tmp/vm$k && git -C /tmp/rm$k apply /verif/seeded/$n/patch.diff && for c in $(seq -f "C%02g" 1 20); do VERIF_REPO=/tmp/rm$k VERIF_KEEP_EVIDENCE=1 ./check $c 2>&1 | grep -v "WARNING\|^NOTE" | tail -2 | tr '\n' ' ' | sed "s/^/$n: /"; echo; done > /tmp/vm$k/cross.log 2>&1; git -C /tmp/rm$k checkout -q -- .) &
done
wait
cat /tmp/vm*/cross.log | grep -v " OK " | sort > /verif/build/cross_last.log
cat /verif/build/cross_last.log | cut -c1-230
