#!/bin/bash
# usage: harmtest.sh <Hn> [checks...] — apply a behaviour-preserving refactoring to /repo, run the quick checks, undo
h=$1; shift
checks=("$@"); if [ ${#checks[@]} -eq 0 ]; then checks=($(seq -f "C%02g" 1 20)); fi
mkdir -p /verif/seeded/harmless-$h
[ -f /tmp/harm/$h/out/patch.diff ] && cp /tmp/harm/$h/out/patch.diff /tmp/harm/$h/out/notes.md /verif/seeded/harmless-$h/ 2>/dev/null
git -C /repo checkout -q -- . ; git -C /repo apply /verif/seeded/harmless-$h/patch.diff || exit 2
for c in "${checks[@]}"; do VERIF_KEEP_EVIDENCE=1 ./check $c 2>&1 | grep -v "WARNING\|^NOTE" | tail -3 | sed "s/^/$h: /"; done
git -C /repo checkout -q -- .
