#!/bin/bash
# usage: seedtest2.sh <seeded-name> <check-id>...   apply a kept seeded change, run the given checks, undo
name=$1; shift
git -C /repo checkout -- . ; git -C /repo apply /verif/seeded/$name/patch.diff || exit 2
for c in "$@"; do VERIF_KEEP_EVIDENCE=1 ./check $c 2>&1 | grep -v WARNING | tail -3; done
git -C /repo checkout -- .
