"""Translation of the crate's small derived accessors and range helpers into Lean definitions
(`Generated/Accessors.lean`), regenerated on every run (DESIGN §11.7).

  Symbol::{is_undefined, st_symtype, st_bind, st_vis}      VersionIndex::{index, is_local, is_global, is_hidden}
  Dyn::{d_val, d_ptr}     SectionHeader::get_data_range     ProgramHeader::get_file_data_range

Each function becomes `def Gen.acc_<Type>_<fn> (<the fields of self it reads, in declaration order> : Nat) : <T>`.
The parameter list is part of the translation: an accessor that starts reading another field (say `st_value` in
`is_undefined`) gets another parameter, and the hand-written wrapper in Model/Structs.lean — which passes exactly the
fields the ABI macro is a function of, by name — stops compiling, as do the theorems of Props/C02, C03 that quantify
over exactly those fields.  Semantically equal rewrites of a body keep the signature; the theorems about the byte- and
halfword-domain accessors are checked by kernel evaluation over the whole domain, so they do not depend on the
syntactic form of the body.
"""
import re

from rustmini import TranslateError, tokenize, Parser, find_matching

INT_BITS = {"u8": 8, "u16": 16, "u32": 32, "u64": 64, "usize": 64}

ACCESSORS = [
    ("symbol.rs", "Symbol", ["is_undefined", "st_symtype", "st_bind", "st_vis"]),
    ("gnu_symver.rs", "VersionIndex", ["index", "is_local", "is_global", "is_hidden"]),
    ("dynamic.rs", "Dyn", ["d_val", "d_ptr"]),
    ("section.rs", "SectionHeader", ["get_data_range"]),
    ("segment.rs", "ProgramHeader", ["get_file_data_range"]),
]

LEAN_KEYWORDS = {"end", "at", "from", "in", "then", "else", "do", "let", "have", "show", "fun", "match", "with", "open"}


def lname(n):
    if n.isdigit():
        return "v" + n
    return "«%s»" % n if n in LEAN_KEYWORDS else n


def struct_fields(src, tname, aliases=None):
    """[(field, type)] of `struct tname`, named or tuple."""
    m = re.search(r"\bstruct\s+%s\b\s*(?:<[^>{(]*>)?\s*([({])" % tname, src)
    if not m:
        raise TranslateError("struct %s not found" % tname)
    open_ch = m.group(1)
    i = m.end() - 1
    j = find_matching(src, i, open_ch, ")" if open_ch == "(" else "}")
    body = src[i + 1:j]
    body = re.sub(r"///[^\n]*|//[^\n]*", "", body)
    body = re.sub(r"#\[[^\]]*\]", "", body)
    out = []
    if open_ch == "(":
        for k, part in enumerate(p for p in body.split(",") if p.strip()):
            ty = re.sub(r"\bpub(\([^)]*\))?\s*", "", part).strip()
            out.append((str(k), ty))
    else:
        for part in body.split(","):
            part = part.strip()
            if not part:
                continue
            mm = re.match(r"(?:pub(?:\([^)]*\))?\s+)?(\w+)\s*:\s*(.+)$", part, re.S)
            if not mm:
                raise TranslateError("struct %s: cannot read field %r" % (tname, part[:40]))
            out.append((mm.group(1), mm.group(2).strip()))
    if aliases:
        out = [(f, aliases.get(t, t)) for f, t in out]
    return out


class AccCompiler:
    def __init__(self, tname, fields, consts, done):
        self.tname = tname
        self.fields = dict(fields)
        self.order = [f for f, _ in fields]
        self.consts = consts
        self.done = done            # fn name -> translated item (for self.m() calls)
        self.used = set()
        self.locals = {}

    # ---- pure expressions: -> (lean text, type) with type in INT_BITS / 'bool' / None (untyped literal)
    def ex(self, e):
        k = e[0]
        if k == "paren":
            return self.ex(e[1])
        if k == "num":
            return (str(e[1]), None)
        if k == "field" and e[1] == ("path", ["self"]):
            f = e[2]
            if f not in self.fields:
                raise TranslateError("%s has no field %s" % (self.tname, f))
            ty = self.fields[f]
            if ty not in INT_BITS:
                raise TranslateError("field %s.%s has type %s (only unsigned integers are translated)" % (self.tname, f, ty))
            self.used.add(f)
            return (lname(f), ty)
        if k == "path":
            segs = e[1]
            if len(segs) == 1 and segs[0] in self.locals:
                return (lname(segs[0]), self.locals[segs[0]])
            name = segs[-1]
            if name in self.consts and isinstance(self.consts[name][1], int):
                ty, _v = self.consts[name]
                return ("Abi." + name, ty if ty in INT_BITS else None)
            raise TranslateError("unknown name %s" % "::".join(segs))
        if k == "mcall" and e[1] == ("path", ["self"]) and not e[3]:
            callee = self.done.get(e[2])
            if callee is None or callee.get("monadic"):
                raise TranslateError("call of untranslated method %s" % e[2])
            for p, _ in callee["params"]:
                self.used.add(p)
            args = " ".join("(%s := %s)" % (lname(p), lname(p)) for p, _ in callee["params"])
            return ("(acc_%s_%s %s)" % (self.tname, e[2], args), callee["rty"])
        if k == "cast":
            a, ta = self.ex(e[1])
            ty = e[2].strip()
            if ty not in INT_BITS or ta == "bool":
                raise TranslateError("cast to %s" % ty)
            if ta is None or INT_BITS[ta] > INT_BITS[ty]:
                return ("(%s %% %d)" % (a, 2 ** INT_BITS[ty]), ty)
            return (a, ty)
        if k == "un" and e[1] == "!":
            a, ta = self.ex(e[2])
            if ta != "bool":
                raise TranslateError("bitwise not")
            return ("(!%s)" % a, "bool")
        if k == "bin":
            op = e[1]
            a, ta = self.ex(e[2])
            b, tb = self.ex(e[3])
            if op in ("&&", "||"):
                if ta != "bool" or tb != "bool":
                    raise TranslateError("%s on non-bool" % op)
                return ("(%s %s %s)" % (a, op, b), "bool")
            if ta == "bool" or tb == "bool":
                raise TranslateError("%s on bool" % op)
            ty = ta or tb
            if ta and tb and ta != tb and op not in (">>", "<<"):
                raise TranslateError("operands of %s have types %s and %s" % (op, ta, tb))
            if op in ("==", "!="):
                return ("(%s %s %s)" % (a, op, b), "bool")
            if op in ("<", "<=", ">", ">="):
                return ("(decide (%s %s %s))" % (a, {"<": "<", "<=": "≤", ">": ">", ">=": "≥"}[op], b), "bool")
            if op == "&":
                return ("(%s &&& %s)" % (a, b), ty)
            if op == "|":
                return ("(%s ||| %s)" % (a, b), ty)
            if op == "^":
                return ("(%s ^^^ %s)" % (a, b), ty)
            if op == ">>":
                if e[3][0] != "num" or ta is None or e[3][1] >= INT_BITS[ta]:
                    raise TranslateError(">> by a non-literal or oversized amount")
                return ("(%s >>> %s)" % (a, b), ta)
            if op == "<<":
                if e[3][0] != "num" or ta is None or e[3][1] >= INT_BITS[ta]:
                    raise TranslateError("<< by a non-literal or oversized amount")
                return ("((%s <<< %s) %% %d)" % (a, b, 2 ** INT_BITS[ta]), ta)
            if op in ("%", "/"):
                if e[3][0] != "num" or e[3][1] == 0:
                    raise TranslateError("%s by a non-literal or zero" % op)
                return ("(%s %s %s)" % (a, op, b), ta)
            raise TranslateError("operator %s (it can overflow) is not translated in accessors" % op)
        raise TranslateError("unsupported accessor expression %s" % k)

    # ---- the monadic subset of the range helpers: -> lean text of type `Out Nat`
    def mex(self, e):
        """operand of `?`"""
        if e[0] == "mcall" and e[2] == "try_into" and not e[3]:
            a, ta = self.ex(e[1])
            if ta not in INT_BITS:
                raise TranslateError("try_into on %s" % ta)
            return "(tryIntoUsize %s)" % a
        if e[0] == "mcall" and e[2] == "ok_or" and len(e[3]) == 1:
            err = e[3][0]
            if not (err[0] == "path" and err[1][0] == "ParseError" and len(err[1]) == 2):
                raise TranslateError("ok_or with a payload")
            inner = e[1]
            if inner[0] == "mcall" and inner[2] in ("checked_add", "checked_mul") and len(inner[3]) == 1:
                a, _ = self.ex(inner[1])
                b, _ = self.ex(inner[3][0])
                fn = "checkedAdd" if inner[2] == "checked_add" else "checkedMul"
                return "(Out.ofOption .%s (%s %s %s))" % (err[1][1], fn, a, b)
        raise TranslateError("unsupported `?` operand in a range helper")

    def block(self, blk, ret_ty):
        lines = []
        for st in blk[1]:
            if st[0] != "let" or st[1][0] != "name" or st[3] is None:
                raise TranslateError("unsupported statement %s" % st[0])
            name, init = st[1][1], st[3]
            if init[0] == "try":
                lines.append("(%s).bind fun %s =>" % (self.mex(init[1]), lname(name)))
            else:
                a, ta = self.ex(init)
                lines.append("let %s := %s" % (lname(name), a))
            self.locals[name] = "usize"
        tail = blk[2]
        if tail is None:
            raise TranslateError("no tail expression")
        if ret_ty == "pair":
            if not (tail[0] == "call" and tail[1] == ("path", ["Ok"]) and len(tail[2]) == 1):
                raise TranslateError("range helper does not end in Ok((a, b))")
            t = tail[2][0]
            if t[0] == "paren":
                t = t[1]
            if t[0] != "tuple" or len(t[1]) != 2:
                raise TranslateError("range helper does not return a pair")
            a, _ = self.ex(t[1][0])
            b, _ = self.ex(t[1][1])
            lines.append(".ok (%s, %s)" % (a, b))
            return "\n    ".join(lines)
        if lines:
            raise TranslateError("statements in a pure accessor")
        a, ta = self.ex(tail)
        want_bool = ret_ty == "bool"
        if want_bool != (ta == "bool"):
            raise TranslateError("body type %s does not match the declared return type %s" % (ta, ret_ty))
        return a


SIGNATURE_CHANGES = []


def translate_accessors(read_src, consts, aliases=None, fallback=None, pinned=None):
    """-> list of items {type, fn, params [(field, rust type)], rty, lean_ty, body, monadic}"""
    items = []
    for fname, tname, fns in ACCESSORS:
        src = read_src(fname)
        done = {}
        try:
            fields = struct_fields(src, tname, aliases)
        except TranslateError as e:
            fields = None
            ferr = e
        for fn in fns:
            key = "%s.%s" % (tname, fn)
            try:
                if fields is None:
                    raise ferr
                mi = re.search(r"\bimpl\s+%s\s*\{" % tname, src)
                if not mi:
                    raise TranslateError("impl %s not found" % tname)
                impl_end = find_matching(src, mi.end() - 1)
                mf = re.compile(r"\bfn\s+%s\s*\(([^)]*)\)\s*->\s*([^{]+)\{" % fn).search(src, mi.end(), impl_end)
                if not mf:
                    raise TranslateError("fn %s::%s not found" % (tname, fn))
                if mf.group(1).replace(" ", "") not in ("&self", "self"):
                    raise TranslateError("%s takes arguments" % key)
                rty = mf.group(2).strip()
                b = mf.end() - 1
                body_src = src[b:find_matching(src, b) + 1]
                blk = Parser(tokenize(body_src)).parse_block()
                cc = AccCompiler(tname, fields, consts, done)
                if rty == "bool":
                    body, lean_ty, kind = cc.block(blk, "bool"), "Bool", "bool"
                elif rty in INT_BITS:
                    body, lean_ty, kind = cc.block(blk, rty), "Nat", rty
                elif re.sub(r"\s", "", rty) == "Result<(usize,usize),ParseError>":
                    body, lean_ty, kind = cc.block(blk, "pair"), "Out (Nat × Nat)", "pair"
                else:
                    raise TranslateError("return type %s" % rty)
                item = {"type": tname, "fn": fn, "params": [(f, dict(fields)[f]) for f in cc.order if f in cc.used],
                        "rty": kind, "lean_ty": lean_ty, "body": body, "monadic": kind == "pair"}
            except TranslateError as e:
                if fallback is None:
                    raise
                item = fallback("accessors", key, e)
            # The parameter list is what the hand-written model passes (by name).  If the body now reads other fields than
            # the pinned tree's, the *model* keeps the pinned translation (so that every other property's model still
            # builds; it stays tied to the code by the correspondence) and the change is reported: the theorems of the
            # property that speaks about this accessor are stated for exactly the pinned field list, so ./check treats the
            # report as a broken obligation of that property only.
            if pinned is not None and key in pinned and [p for p, _ in pinned[key]["params"]] != [p for p, _ in item["params"]]:
                SIGNATURE_CHANGES.append({"item": key, "now": [p for p, _ in item["params"]], "pinned": [p for p, _ in pinned[key]["params"]]})
                item = dict(pinned[key])
            done[fn] = item
            items.append(item)
    return items


def translate_native(read_src):
    """every `#[cfg(target_endian = "…")] pub type NativeEndian = …;` arm -> [(target is little, alias is LittleEndian)]"""
    src = read_src("endian.rs")
    arms = []
    for m in re.finditer(r'#\[cfg\(\s*target_endian\s*=\s*"(little|big)"\s*\)\]\s*(?:#\[[^\]]*\]\s*)*pub\s+type\s+NativeEndian\s*=\s*(\w+)\s*;', src):
        if m.group(2) not in ("LittleEndian", "BigEndian"):
            raise TranslateError("NativeEndian aliases %s" % m.group(2))
        arms.append((m.group(1) == "little", m.group(2) == "LittleEndian"))
    if not arms:
        raise TranslateError("no cfg(target_endian) arm defines NativeEndian")
    return arms


def emit_accessors(items, native=None):
    out = ["-- GENERATED by /verif/translator/translate.py (accessors.py) from /repo/src — do not edit.",
           "import ElfVerif.Model.Basic",
           "import ElfVerif.Generated.AbiConsts",
           "",
           "namespace Elf.Gen",
           ""]
    for it in items:
        params = " ".join("(%s : Nat)" % lname(f) for f, _ in it["params"])
        out.append("/-- `%s::%s`; reads %s -/" % (it["type"], it["fn"], ", ".join("%s: %s" % p for p in it["params"]) or "nothing"))
        out.append("def acc_%s_%s %s : %s :=\n    %s" % (it["type"], it["fn"], params, it["lean_ty"], it["body"]))
        out.append("")
    if native is not None:
        out.append("/-- `pub type NativeEndian = …` under each `cfg(target_endian = …)`: (the target is little-endian, the alias is `LittleEndian`) -/")
        out.append("def nativeArms : List (Bool × Bool) := [%s]" % ", ".join("(%s, %s)" % (str(a).lower(), str(b).lower()) for a, b in native))
        out.append("")
    out.append("end Elf.Gen")
    return "\n".join(out) + "\n"
