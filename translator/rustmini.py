"""A small tokenizer / parser for the subset of Rust used by the tabular parts of rust-elf.

It is deliberately strict: anything outside the recognised subset raises TranslateError so that
the check fails loudly instead of silently mistranslating.
"""
import re


class TranslateError(Exception):
    pass


TOKEN_RE = re.compile(r"""
    (?P<ws>\s+)
  | (?P<lcomment>//[^\n]*)
  | (?P<bcomment>/\*.*?\*/)
  | (?P<bstr>b"(?:[^"\\]|\\.)*")
  | (?P<bchar>b'(?:[^'\\]|\\x[0-9a-fA-F]{2}|\\.)')
  | (?P<str>"(?:[^"\\]|\\.)*")
  | (?P<char>'(?:[^'\\]|\\.)')
  | (?P<lifetime>'[A-Za-z_][A-Za-z0-9_]*)
  | (?P<num>0x[0-9a-fA-F_]+(?:[ui](?:8|16|32|64|size))?|[0-9][0-9_]*(?:[ui](?:8|16|32|64|size))?)
  | (?P<ident>[A-Za-z_][A-Za-z0-9_]*!?)
  | (?P<op>::|->|=>|==|!=|<=|>=|&&|\|\||<<|>>|\+=|-=|\.\.|[-+*/%&|^!<>=.,;:#?(){}\[\]@$])
""", re.X | re.S)


def tokenize(src):
    toks = []
    pos = 0
    n = len(src)
    while pos < n:
        m = TOKEN_RE.match(src, pos)
        if not m:
            raise TranslateError("cannot tokenize at %r" % src[pos:pos + 40])
        pos = m.end()
        kind = m.lastgroup
        if kind in ("ws", "lcomment", "bcomment"):
            continue
        toks.append((kind, m.group(kind)))
    return toks


def strip_comments(src):
    """Source with comments removed (string literals respected)."""
    out = []
    pos = 0
    n = len(src)
    while pos < n:
        m = TOKEN_RE.match(src, pos)
        if not m:
            out.append(src[pos])
            pos += 1
            continue
        if m.lastgroup in ("lcomment", "bcomment"):
            out.append(" ")
        else:
            out.append(m.group(0))
        pos = m.end()
    return "".join(out)


def strip_test_modules(src):
    """Drop every `#[cfg(test)] mod … { … }` item."""
    out = []
    pos = 0
    while True:
        m = re.search(r"#\[cfg\(test\)\]\s*mod\s+\w+\s*\{", src[pos:])
        if not m:
            out.append(src[pos:])
            break
        out.append(src[pos:pos + m.start()])
        i = pos + m.end()
        depth = 1
        while depth and i < len(src):
            c = src[i]
            if c == "{":
                depth += 1
            elif c == "}":
                depth -= 1
            i += 1
        pos = i
    return "".join(out)


def parse_int(tok):
    t = re.sub(r"[ui](8|16|32|64|size)$", "", tok.replace("_", "")) if not tok.startswith("0x") \
        else re.sub(r"(?<=[0-9a-fA-F])[ui](8|16|32|64|size)$", "", tok.replace("_", ""))
    return int(t, 0)


class Parser:
    """Recursive-descent parser producing small tuple ASTs.

    Expressions:
      ('num', n) ('path', [seg,…]) ('call', fexpr, [args]) ('mcall', recv, name, [args])
      ('try', e) ('cast', e, ty) ('bin', op, a, b) ('un', op, e) ('paren', e)
      ('struct', path, [(field, expr)]) ('tuple', [e…]) ('ref', mut, e) ('block', stmts, tail)
      ('if', cond, then_block, else_block|None) ('match', scrut, [(pat, expr)]) ('return', e)
      ('array', [e…]) ('bstr', bytes) ('str', s) ('macro', name, tokens)
    Statements:
      ('let', pattern, ty|None, init|None) ('assign', name, expr) ('expr', e) ('semi', e)
    """

    def __init__(self, toks):
        self.t = toks
        self.i = 0

    # -- helpers
    def peek(self, k=0):
        return self.t[self.i + k] if self.i + k < len(self.t) else ("eof", "")

    def at(self, val):
        return self.peek()[1] == val

    def eat(self, val=None):
        tok = self.peek()
        if val is not None and tok[1] != val:
            raise TranslateError("expected %r, found %r (near %s)" % (
                val, tok[1], " ".join(x[1] for x in self.t[max(0, self.i - 6):self.i + 6])))
        self.i += 1
        return tok

    def accept(self, val):
        if self.at(val):
            self.i += 1
            return True
        return False

    # -- types (kept as strings)
    def parse_type(self):
        depth = 0
        parts = []
        while True:
            k, v = self.peek()
            if k == "eof":
                break
            if v in ("<", "(", "["):
                depth += 1
            elif v in (">", ")", "]"):
                if depth == 0:
                    break
                depth -= 1
            elif v == ">>":
                if depth < 2:
                    break
                depth -= 2
            elif depth == 0 and v in (",", ";", "=", "{", "=>", "?"):
                break
            parts.append(v)
            self.i += 1
        return " ".join(parts)

    # -- blocks / statements
    def parse_block(self):
        self.eat("{")
        stmts = []
        tail = None
        while not self.at("}"):
            if self.at("let"):
                stmts.append(self.parse_let())
                continue
            if self.at(";"):
                self.eat()
                continue
            e = self.parse_expr()
            if self.accept("="):
                if e[0] != "path" or len(e[1]) != 1:
                    if e[0] == "un" and e[1] == "*":
                        rhs = self.parse_expr()
                        self.eat(";")
                        stmts.append(("assign_deref", e[2], rhs))
                        continue
                    raise TranslateError("unsupported assignment target %r" % (e,))
                rhs = self.parse_expr()
                self.eat(";")
                stmts.append(("assign", e[1][0], rhs))
                continue
            if self.accept(";"):
                stmts.append(("semi", e))
            elif self.at("}"):
                tail = e
            elif e[0] in ("if", "match", "block"):
                stmts.append(("semi", e))
            else:
                raise TranslateError("expected ; or } after expression, found %r" % (self.peek(),))
        self.eat("}")
        return ("block", stmts, tail)

    def parse_let(self):
        self.eat("let")
        self.accept("mut")
        if self.at("("):
            self.eat("(")
            names = []
            while not self.at(")"):
                self.accept("mut")
                names.append(self.eat()[1])
                self.accept(",")
            self.eat(")")
            pat = ("tuplepat", names)
        else:
            pat = ("name", self.eat()[1])
        ty = None
        if self.accept(":"):
            ty = self.parse_type()
        init = None
        if self.accept("="):
            init = self.parse_expr()
        self.eat(";")
        return ("let", pat, ty, init)

    # -- expressions (precedence climbing; only the operators that occur)
    BINOPS = [
        ["||"], ["&&"], ["==", "!=", "<", ">", "<=", ">="], ["|"], ["^"], ["&"],
        ["<<", ">>"], ["+", "-"], ["*", "/", "%"],
    ]

    def parse_expr(self, level=0, no_struct=False):
        if level == len(self.BINOPS):
            return self.parse_cast(no_struct)
        lhs = self.parse_expr(level + 1, no_struct)
        while self.peek()[1] in self.BINOPS[level]:
            op = self.eat()[1]
            rhs = self.parse_expr(level + 1, no_struct)
            lhs = ("bin", op, lhs, rhs)
        return lhs

    def parse_cast(self, no_struct):
        e = self.parse_unary(no_struct)
        while self.at("as"):
            self.eat()
            ty = self.parse_type()
            e = ("cast", e, ty)
        return e

    def parse_unary(self, no_struct):
        if self.at("!") or self.at("-") or self.at("*"):
            op = self.eat()[1]
            return ("un", op, self.parse_unary(no_struct))
        if self.at("&"):
            self.eat()
            mut = self.accept("mut")
            return ("ref", mut, self.parse_unary(no_struct))
        return self.parse_postfix(no_struct)

    def parse_postfix(self, no_struct):
        e = self.parse_primary(no_struct)
        while True:
            if self.at("?"):
                self.eat()
                e = ("try", e)
            elif self.at("(") :
                args = self.parse_args()
                e = ("call", e, args)
            elif self.at(".") and self.peek(1)[0] in ("ident", "num"):
                self.eat()
                name = self.eat()[1]
                if self.at("::"):
                    self.eat("::")
                    self.eat("<")
                    self.parse_type()
                    self.eat(">")
                if self.at("("):
                    args = self.parse_args()
                    e = ("mcall", e, name, args)
                else:
                    e = ("field", e, name)
            elif self.at("["):
                self.eat()
                idx = self.parse_expr()
                self.eat("]")
                e = ("index", e, idx)
            else:
                return e

    def parse_args(self):
        self.eat("(")
        args = []
        while not self.at(")"):
            args.append(self.parse_expr())
            if not self.accept(","):
                break
        self.eat(")")
        return args

    def parse_primary(self, no_struct):
        k, v = self.peek()
        if k == "num":
            self.eat()
            return ("num", parse_int(v))
        if k == "bchar":
            self.eat()
            return ("num", eval(v)[0])
        if k == "bstr":
            self.eat()
            return ("bstr", eval(v))
        if k == "str":
            self.eat()
            return ("str", eval(v))
        if v == "(":
            self.eat()
            if self.at(")"):
                self.eat()
                return ("tuple", [])
            e = self.parse_expr()
            if self.at(","):
                items = [e]
                while self.accept(","):
                    if self.at(")"):
                        break
                    items.append(self.parse_expr())
                self.eat(")")
                return ("tuple", items)
            self.eat(")")
            return ("paren", e)
        if v == "[":
            self.eat()
            items = []
            while not self.at("]"):
                items.append(self.parse_expr())
                if not self.accept(","):
                    break
            self.eat("]")
            return ("array", items)
        if v == "{":
            return self.parse_block()
        if v == "if":
            return self.parse_if()
        if v == "match":
            return self.parse_match()
        if v == "return":
            self.eat()
            if self.at(";") or self.at("}"):
                return ("return", None)
            return ("return", self.parse_expr())
        if k == "ident":
            segs = [self.eat()[1]]
            while self.at("::"):
                self.eat()
                if self.at("<"):
                    self.eat("<")
                    ty = self.parse_type()
                    self.eat(">")
                    segs.append("<" + ty + ">")
                else:
                    segs.append(self.eat()[1])
            if segs[-1].endswith("!"):
                # macro invocation: capture raw tokens
                open_ = self.eat()[1]
                close = {"(": ")", "[": "]", "{": "}"}[open_]
                depth = 1
                toks = []
                while depth:
                    kk, vv = self.eat()
                    if vv == open_:
                        depth += 1
                    elif vv == close:
                        depth -= 1
                        if depth == 0:
                            break
                    toks.append((kk, vv))
                return ("macro", segs[-1], toks)
            path = ("path", segs)
            if self.at("{") and not no_struct and segs[-1][:1].isupper():
                return self.parse_struct_lit(path)
            return path
        raise TranslateError("unexpected token %r in expression" % (self.peek(),))

    def parse_struct_lit(self, path):
        self.eat("{")
        fields = []
        while not self.at("}"):
            name = self.eat()[1]
            if self.accept(":"):
                val = self.parse_expr()
            else:
                val = ("path", [name])
            fields.append((name, val))
            if not self.accept(","):
                break
        self.eat("}")
        return ("struct", path, fields)

    def parse_if(self):
        self.eat("if")
        cond = self.parse_expr(no_struct=True)
        then = self.parse_block()
        els = None
        if self.accept("else"):
            if self.at("if"):
                els = ("block", [], self.parse_if())
            else:
                els = self.parse_block()
        return ("if", cond, then, els)

    def parse_match(self):
        self.eat("match")
        scrut = self.parse_expr(no_struct=True)
        self.eat("{")
        arms = []
        while not self.at("}"):
            pats = [self.parse_pattern()]
            while self.accept("|"):
                pats.append(self.parse_pattern())
            self.eat("=>")
            body = self.parse_expr()
            self.accept(",")
            arms.append((pats, body))
        self.eat("}")
        return ("match", scrut, arms)

    def parse_pattern(self):
        k, v = self.peek()
        if v == "_":
            self.eat()
            return ("wild",)
        if k == "num":
            self.eat()
            return ("num", parse_int(v))
        if v == "-" and self.peek(1)[0] == "num":
            self.eat()
            return ("num", -parse_int(self.eat()[1]))
        if k == "ident":
            segs = [self.eat()[1]]
            while self.accept("::"):
                segs.append(self.eat()[1])
            return ("path", segs)
        raise TranslateError("unsupported pattern %r" % (self.peek(),))


def find_matching(src, open_idx, open_ch="{", close_ch="}"):
    depth = 0
    i = open_idx
    while i < len(src):
        c = src[i]
        if c == open_ch:
            depth += 1
        elif c == close_ch:
            depth -= 1
            if depth == 0:
                return i
        i += 1
    raise TranslateError("unbalanced %s" % open_ch)
