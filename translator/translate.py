#!/usr/bin/env python3
"""Regenerates lean/ElfVerif/Generated/*.lean from /repo's current source.

  translate.py [--repo /repo] [--out /verif/lean/ElfVerif/Generated] [--json out.json]

Extracted (see DESIGN.md §4.1):
  * every `pub const` of abi.rs (evaluated)                       -> AbiConsts.lean
  * every `impl ParseAt for T` body, per class, as a straight-line
    program (reads, guard, field expressions) + size_for          -> ParseProgs.lean
  * FileHeader::parse_tail as the same kind of program, tail sizes -> ParseProgs.lean
  * every #[repr(C)] struct (ordered fields, types)               -> CStructs.lean
  * every *_to_str match (const, string) and *_to_string fallback -> ToStr.lean
  * crate attributes, cfg gates, [features]                       -> Features.lean
Files are only rewritten when their content changes.  A JSON dump of everything extracted is
written too; the harness cross-checks it against the compiled crate.
"""
import argparse
import hashlib
import json
import os
import re
import sys

sys.path.insert(0, os.path.dirname(os.path.abspath(__file__)))
from rustmini import (TranslateError, Parser, tokenize, strip_comments, strip_test_modules,
                      find_matching, parse_int)

INT_TYPES = {"u8": (1, False), "u16": (2, False), "u32": (4, False), "u64": (8, False),
             "i32": (4, True), "i64": (8, True), "usize": (8, False), "i8": (1, True),
             "i16": (2, True)}

CANON = {
    "SectionHeader": ["sh_name", "sh_type", "sh_flags", "sh_addr", "sh_offset", "sh_size",
                      "sh_link", "sh_info", "sh_addralign", "sh_entsize"],
    "ProgramHeader": ["p_type", "p_offset", "p_vaddr", "p_paddr", "p_filesz", "p_memsz",
                      "p_flags", "p_align"],
    "Symbol": ["st_name", "st_shndx", "st_info", "st_other", "st_value", "st_size"],
    "Rel": ["r_offset", "r_sym", "r_type"],
    "Rela": ["r_offset", "r_sym", "r_type", "r_addend"],
    "Dyn": ["d_tag", "d_un"],
    "CompressionHeader": ["ch_type", "ch_size", "ch_addralign"],
    "NoteHeader": ["n_namesz", "n_descsz", "n_type"],
    "NoteGnuAbiTag": ["os", "major", "minor", "subminor"],
    "SysVHashHeader": ["nbucket", "nchain"],
    "GnuHashHeader": ["nbucket", "table_start_idx", "nbloom", "nshift"],
    "VersionIndex": ["0"],
    "VerDef": ["vd_flags", "vd_ndx", "vd_cnt", "vd_hash", "vd_aux", "vd_next"],
    "VerDefAux": ["vda_name", "vda_next"],
    "VerNeed": ["vn_cnt", "vn_file", "vn_aux", "vn_next"],
    "VerNeedAux": ["vna_hash", "vna_flags", "vna_other", "vna_name", "vna_next"],
    "u32": ["0"],
    "u64": ["0"],
    "FileHeaderTail": ["version", "e_type", "e_machine", "e_entry", "e_phoff", "e_shoff",
                       "e_flags", "e_ehsize", "e_phentsize", "e_phnum", "e_shentsize", "e_shnum",
                       "e_shstrndx"],
}
PARSEAT_FILES = ["compression.rs", "dynamic.rs", "gnu_symver.rs", "hash.rs", "note.rs",
                 "relocation.rs", "section.rs", "segment.rs", "symbol.rs"]
CSTRUCT_FILES = ["file.rs", "section.rs", "segment.rs", "symbol.rs", "relocation.rs",
                 "dynamic.rs", "compression.rs"]


def read_src(repo, name):
    with open(os.path.join(repo, "src", name)) as f:
        return strip_test_modules(strip_comments(f.read()))


# ------------------------------------------------------------------------------------------
# constants
# ------------------------------------------------------------------------------------------

CONST_RE = re.compile(r"^\s*(pub(?:\([a-z]+\))?\s+)?const\s+([A-Za-z_][A-Za-z0-9_]*)\s*:\s*([^=]+?)\s*=\s*(.*?);",
                      re.M | re.S)


def wrap(ty, v):
    if ty in INT_TYPES:
        w, signed = INT_TYPES[ty]
        bits = 8 * w
        if signed:
            if not (-(1 << (bits - 1)) <= v < (1 << (bits - 1))):
                raise TranslateError("constant out of range for %s: %d" % (ty, v))
        else:
            if not (0 <= v < (1 << bits)):
                raise TranslateError("constant out of range for %s: %d" % (ty, v))
    return v


def eval_const_expr(e, env):
    k = e[0]
    if k == "num":
        return e[1]
    if k == "paren":
        return eval_const_expr(e[1], env)
    if k == "path":
        name = e[1][-1]
        if name in env:
            return env[name][1]
        raise TranslateError("unknown constant %s" % "::".join(e[1]))
    if k == "bin":
        a = eval_const_expr(e[2], env)
        b = eval_const_expr(e[3], env)
        op = e[1]
        if op == "<<":
            return a << b
        if op == ">>":
            return a >> b
        if op == "|":
            return a | b
        if op == "&":
            return a & b
        if op == "+":
            return a + b
        if op == "-":
            return a - b
        if op == "*":
            return a * b
        raise TranslateError("unsupported const operator %s" % op)
    if k == "un" and e[1] == "-":
        return -eval_const_expr(e[2], env)
    if k == "cast":
        v = eval_const_expr(e[1], env)
        ty = e[2].strip()
        if ty in INT_TYPES:
            w, signed = INT_TYPES[ty]
            v %= 1 << (8 * w)
            if signed and v >= 1 << (8 * w - 1):
                v -= 1 << (8 * w)
            return v
        raise TranslateError("unsupported const cast to %s" % ty)
    if k == "array":
        return [eval_const_expr(x, env) for x in e[1]]
    if k == "bstr":
        return list(e[1])
    if k == "str":
        return e[1]
    if k == "call" and e[1][0] == "path" and e[1][1][-2:-1] == ["size_of"] or \
            (k == "call" and e[1][0] == "path" and any(s == "size_of" for s in e[1][1])):
        ty = [s for s in e[1][1] if s.startswith("<")][0][1:-1].strip()
        if ty in INT_TYPES:
            return INT_TYPES[ty][0]
        raise TranslateError("size_of of unknown type %s" % ty)
    raise TranslateError("unsupported const expression %r" % (e,))


def extract_consts(src, env=None, public_only=False):
    env = {} if env is None else env
    out = []
    for m in CONST_RE.finditer(src):
        pub, name, ty, expr = m.group(1), m.group(2), m.group(3).strip(), m.group(4)
        try:
            toks = tokenize(expr)
            p = Parser(toks)
            e = p.parse_expr()
            if p.peek()[0] != "eof":
                raise TranslateError("trailing tokens in const %s" % name)
            v = eval_const_expr(e, env)
            if ty in INT_TYPES:
                v = wrap(ty, v)
        except TranslateError as err:
            # an initialiser outside the evaluated subset: the pinned tree's value for this constant (same name and
            # type), tied by the compiled-crate cross-check (the harness prints `elf::abi::NAME` as compiled)
            try:
                bty, v = fallback("consts", name, err)
                if bty != ty:
                    raise err
            except TranslateError:
                # no pinned value either (a new constant, a `const _: () = { … }` compile-time assertion block, …): the
                # constant is left out; an item that uses it fails to translate on its own and falls back on its own
                SKIPPED_CONSTS.append({"name": name, "pub": bool(pub), "reason": str(err)[:200]})
                continue
        env[name] = (ty, v)
        if pub or not public_only:
            out.append((name, ty, v, bool(pub)))
    return out, env


# ------------------------------------------------------------------------------------------
# ParseAt bodies: symbolic execution
# ------------------------------------------------------------------------------------------

class Ret(Exception):
    def __init__(self, val):
        self.val = val


def sym_type(s):
    k = s[0]
    if k == "rd":
        return s[2]
    if k == "cast":
        return s[2]
    if k in ("shr", "and"):
        return sym_type(s[1])
    if k == "const":
        return s[2]
    raise TranslateError("no type for %r" % (s,))


class SymExec:
    def __init__(self, cls, consts, class_names=("class", "_class"), extra_env=None):
        self.cls = cls              # 'ELF32' / 'ELF64'
        self.consts = consts
        self.reads = []             # list of type names
        self.guard = None
        self.env = dict(extra_env or {})
        self.class_names = class_names

    def is_read_call(self, e):
        # <ident>.parse_<ty>_at(<offset>, <data>)
        if e[0] == "mcall" and re.fullmatch(r"parse_(u8|u16|u32|u64|i32|i64)_at", e[2]):
            if len(e[3]) != 2:
                raise TranslateError("read call with %d args" % len(e[3]))
            return re.fullmatch(r"parse_(\w+)_at", e[2]).group(1)
        return None

    def ev(self, e):
        k = e[0]
        if k == "paren":
            return self.ev(e[1])
        if k == "try":
            inner = e[1]
            ty = self.is_read_call(inner)
            if ty:
                self.reads.append(ty)
                return ("rd", len(self.reads) - 1, ty)
            v = self.ev(inner)
            if v[0] == "okval":
                return v[1]
            raise TranslateError("unsupported `?` operand %r" % (inner,))
        ty = self.is_read_call(e)
        if ty:
            # bare call as the tail expression: Result<T> returned directly
            self.reads.append(ty)
            return ("okval", ("rd", len(self.reads) - 1, ty))
        if k == "num":
            return ("const", e[1], None)
        if k == "path":
            segs = e[1]
            if len(segs) == 1 and segs[0] in self.env:
                v = self.env[segs[0]]
                if v is None:
                    raise TranslateError("use of unassigned variable %s" % segs[0])
                return v
            if segs[:1] == ["Class"] and len(segs) == 2:
                return ("class", segs[1])
            if len(segs) == 1 and segs[0] in self.class_names:
                return ("class", self.cls)
            name = segs[-1]
            if name in self.consts:
                ty, v = self.consts[name]
                return ("const", v, ty)
            raise TranslateError("unknown name %s" % "::".join(segs))
        if k == "cast":
            v = self.ev(e[1])
            ty = e[2].strip()
            if ty not in INT_TYPES:
                raise TranslateError("cast to %s" % ty)
            if v[0] == "const":
                return ("const", v[1], ty)
            return ("cast", v, ty)
        if k == "bin":
            op = e[1]
            a = self.ev(e[2])
            b = self.ev(e[3])
            if op in ("==", "!="):
                if a[0] == "class" and b[0] == "class":
                    return ("bool", (a[1] == b[1]) == (op == "=="))
                if b[0] == "const" and a[0] == "rd":
                    return ("cmp", op, a, b)
                raise TranslateError("unsupported comparison %r" % (e,))
            if b[0] != "const":
                raise TranslateError("non-constant right operand of %s" % op)
            if op == ">>":
                if INT_TYPES[sym_type(a)][1]:
                    raise TranslateError(">> on a signed value")
                return ("shr", a, b[1])
            if op == "&":
                if INT_TYPES[sym_type(a)][1]:
                    raise TranslateError("& on a signed value")
                return ("and", a, b[1])
            raise TranslateError("unsupported operator %s in field expression" % op)
        if k == "call":
            f = e[1]
            if f[0] == "path" and f[1] == ["Ok"] and len(e[2]) == 1:
                return ("okval", self.ev(e[2][0]))
            if f[0] == "path" and f[1] == ["Err"]:
                return ("errval", e[2][0])
            if f[0] == "path" and len(f[1]) == 2 and f[1][1] == "from" and f[1][0] in INT_TYPES and len(e[2]) == 1:
                # `u64::from(x)`: the lossless conversion, same value as `x as u64`
                v = self.ev(e[2][0])
                if v[0] == "const":
                    return ("const", v[1], f[1][0])
                return ("cast", v, f[1][0])
            if f[0] == "path" and len(f[1]) == 1 and f[1][0][:1].isupper() and len(e[2]) == 1:
                # tuple struct constructor
                return ("struct", f[1][0], [("0", self.ev(e[2][0]))])
            raise TranslateError("unsupported call %r" % (f,))
        if k == "struct":
            name = e[1][1][-1]
            return ("struct", name, [(fn, self.ev(fv)) for fn, fv in e[2]])
        if k == "block":
            return self.run_block(e)
        if k == "if":
            c = self.ev(e[1])
            if c[0] == "bool":
                if c[1]:
                    return self.run_block(e[2])
                if e[3] is not None:
                    return self.run_block(e[3])
                return ("unit",)
            if c[0] == "cmp" and c[1] == "!=" and e[3] is None:
                # guard: body must be `return Err(ParseError::UnsupportedVersion((x as u64, C as u64)))`
                blk = e[2]
                stm = blk[1][0][1] if blk[1] else blk[2]
                if stm[0] != "return":
                    raise TranslateError("guard body is not a return")
                ret = stm[1]
                if not (ret[0] == "call" and ret[1][1] == ["Err"]):
                    raise TranslateError("guard does not return Err")
                inner = ret[2][0]
                if not (inner[0] == "call" and inner[1][1][-1] == "UnsupportedVersion"):
                    raise TranslateError("guard error is not UnsupportedVersion")
                tup = inner[2][0]
                if tup[0] == "paren":
                    tup = tup[1]
                if tup[0] != "tuple" or len(tup[1]) != 2:
                    raise TranslateError("UnsupportedVersion payload shape")
                found = self.ev(tup[1][0])
                rep = self.ev(tup[1][1])
                base = found[1] if found[0] == "cast" else found
                if base != c[2]:
                    raise TranslateError("guard reports a different value than it tests")
                if self.guard is not None:
                    raise TranslateError("more than one guard")
                if c[2][1] != len(self.reads) - 1:
                    raise TranslateError("guard is not immediately after its read")
                self.guard = (c[2][1], c[3][1], rep[1])
                return ("unit",)
            raise TranslateError("unsupported if condition %r" % (e[1],))
        if k == "match":
            s = self.ev(e[1])
            if s[0] != "class":
                raise TranslateError("match on non-class")
            for pats, body in e[2]:
                for pat in pats:
                    if pat[0] == "wild" or (pat[0] == "path" and pat[1][-1] == s[1]):
                        return self.ev(body)
            raise TranslateError("no match arm for %s" % s[1])
        if k == "return":
            raise Ret(self.ev(e[1]))
        raise TranslateError("unsupported expression kind %s" % k)

    def run_block(self, blk):
        for st in blk[1]:
            if st[0] == "let":
                pat, ty, init = st[1], st[2], st[3]
                if pat[0] != "name":
                    raise TranslateError("tuple let in parser body")
                self.env[pat[1]] = self.ev(init) if init is not None else None
            elif st[0] == "assign":
                if st[1] not in self.env:
                    raise TranslateError("assignment to undeclared %s" % st[1])
                self.env[st[1]] = self.ev(st[2])
            elif st[0] == "semi":
                self.ev(st[1])
            else:
                raise TranslateError("unsupported statement %s" % st[0])
        if blk[2] is not None:
            return self.ev(blk[2])
        return ("unit",)


def lean_ty(t):
    return "." + t


def lean_expr(s):
    k = s[0]
    if k == "rd":
        return "(.rd %d)" % s[1]
    if k == "cast":
        return "(.cast %s %s)" % (lean_ty(s[2]), lean_expr(s[1]))
    if k == "shr":
        return "(.shr %s %d)" % (lean_expr(s[1]), s[2])
    if k == "and":
        return "(.land %s %d)" % (lean_expr(s[1]), s[2])
    raise TranslateError("cannot emit %r" % (s,))


def json_expr(s):
    k = s[0]
    if k == "rd":
        return {"rd": s[1]}
    if k == "cast":
        return {"cast": s[2], "e": json_expr(s[1])}
    if k == "shr":
        return {"shr": s[2], "e": json_expr(s[1])}
    if k == "and":
        return {"and": s[2], "e": json_expr(s[1])}
    raise TranslateError("cannot emit %r" % (s,))


def fn_body(src, impl_start, fname):
    m = re.compile(r"fn\s+" + fname + r"\b").search(src, impl_start)
    if not m:
        raise TranslateError("fn %s not found" % fname)
    # skip the signature: find the first '{' at paren/angle depth 0 after the parameter list
    i = src.index("(", m.end())
    j = find_matching(src, i, "(", ")")
    b = src.index("{", j)
    e = find_matching(src, b)
    return src[b:e + 1], m.start(), e + 1


def exec_parse_fn(body_src, cls, consts, canon, extra_env=None):
    p = Parser(tokenize(body_src))
    blk = p.parse_block()
    se = SymExec(cls, consts, extra_env=extra_env)
    try:
        res = se.run_block(blk)
    except Ret as r:
        res = r.val
    if res[0] != "okval":
        raise TranslateError("parser body does not end in Ok(…): %r" % (res,))
    val = res[1]
    if val[0] == "struct":
        fields = dict(val[2])
        dup = [fn for fn, _ in val[2]]
        if len(set(dup)) != len(dup):
            raise TranslateError("duplicate field in struct literal")
    else:
        fields = {"0": val}
    return se, fields


BASELINE = None      # translation of the pinned tree (translator/baseline.txt), used per item when an item cannot be translated
FALLBACKS = []       # [{"component": …, "reason": …}] of this run
EXTRA_CONST_NAMES = []  # pinned-tree constants not found as items this run, still named in abi.rs
SKIPPED_CONSTS = []  # constants whose initialiser could not be evaluated and that the pinned tree does not have


def load_baseline():
    global BASELINE
    path = os.path.join(os.path.dirname(os.path.abspath(__file__)), "baseline.txt")
    if os.path.exists(path):
        import ast
        BASELINE = ast.literal_eval(open(path).read())
    return BASELINE


def fallback(component, key, err):
    """the baseline's translation of `component[key]`, recorded as a fallback; re-raises when there is none"""
    if BASELINE is not None and component in BASELINE and (key is None or key in BASELINE[component]):
        FALLBACKS.append({"component": component + ("." + key if key else ""), "reason": str(err)})
        return BASELINE[component] if key is None else BASELINE[component][key]
    raise err


def extract_parse_progs(repo, consts):
    progs = {}
    sizes = {}
    for fname in PARSEAT_FILES:
        src = read_src(repo, fname)
        local_consts = dict(consts)
        _, local_consts = extract_consts(src, local_consts)
        for m in re.finditer(r"impl\s+ParseAt\s+for\s+(\w+)\s*\{", src):
            tname = m.group(1)
            if tname not in CANON:
                raise TranslateError("impl ParseAt for unknown type %s in %s" % (tname, fname))
            impl_end = find_matching(src, m.end() - 1)
            impl_src = src[m.start():impl_end + 1]
            try:
                per_class, sz = translate_impl(impl_src, tname, local_consts)
            except TranslateError as e:
                per_class = fallback("progs", tname, e)
                sz = fallback("sizes", tname, e)
                FALLBACKS.pop()
            progs[tname] = per_class
            sizes[tname] = sz
    missing_types = [t for t in CANON if t not in progs and t != "FileHeaderTail"]
    if missing_types:
        raise TranslateError("no impl ParseAt found for %s" % missing_types)
    return progs, sizes


def translate_impl(impl_src, tname, local_consts):
    if True:
        if True:
            sizes = {}
            body, _, _ = fn_body(impl_src, 0, "parse_at")
            sbody, _, _ = fn_body(impl_src, 0, "size_for")
            per_class = {}
            for cls in ("ELF32", "ELF64"):
                se, fields = exec_parse_fn(body, cls, local_consts, CANON[tname])
                missing = [f for f in CANON[tname] if f not in fields]
                extra = [f for f in fields if f not in CANON[tname]]
                if missing or extra:
                    raise TranslateError("%s: fields differ from the model's record: missing %s extra %s"
                                         % (tname, missing, extra))
                per_class[cls] = {"reads": se.reads, "guard": se.guard,
                                  "fields": [fields[f] for f in CANON[tname]]}
                # size_for
                sp = Parser(tokenize(sbody))
                sblk = sp.parse_block()
                sse = SymExec(cls, local_consts)
                try:
                    sv = sse.run_block(sblk)
                except Ret as r:
                    sv = r.val
                sizes.setdefault(tname, {})[cls] = eval_size(sv, sblk, cls, local_consts)
            return per_class, sizes[tname]


def eval_size(sv, sblk, cls, consts):
    if sv[0] == "const":
        return sv[1]
    raise TranslateError("size_for is not a constant: %r" % (sv,))


class SizeExec(SymExec):
    pass


def sym_size_ev(self, e):
    """extend SymExec.ev for size_for bodies: arithmetic on constants, size_of::<T>()."""
    k = e[0]
    if k == "call" and e[1][0] == "path" and "size_of" in e[1][1]:
        ty = [s for s in e[1][1] if s.startswith("<")][0][1:-1].strip()
        if ty not in INT_TYPES:
            raise TranslateError("size_of::<%s>" % ty)
        return ("const", INT_TYPES[ty][0], "usize")
    if k == "bin" and e[1] in ("+", "*"):
        a = self.ev(e[2])
        b = self.ev(e[3])
        if a[0] == "const" and b[0] == "const":
            return ("const", a[1] + b[1] if e[1] == "+" else a[1] * b[1], "usize")
    return SymExec._ev_orig(self, e)


SymExec._ev_orig = SymExec.ev
SymExec.ev = sym_size_ev


def extract_parse_tail(repo, consts):
    src = read_src(repo, "file.rs")
    _, local = extract_consts(src, dict(consts))
    body, _, _ = fn_body(src, 0, "parse_tail")
    # expected prologue:  let (file_endian, class, osabi, abiversion) = ident;  let mut offset = 0;
    m = re.search(r"let\s*\(\s*(\w+)\s*,\s*(\w+)\s*,\s*(\w+)\s*,\s*(\w+)\s*\)\s*=\s*ident\s*;", body)
    if not m:
        raise TranslateError("parse_tail: ident destructuring not recognised")
    en, cl, osabi, abiv = m.groups()
    body2 = body[:m.start()] + body[m.end():]
    m2 = re.search(r"let\s+mut\s+offset\s*=\s*0\s*;", body2)
    if not m2:
        raise TranslateError("parse_tail: `let mut offset = 0;` not found")
    body2 = body2[:m2.start()] + body2[m2.end():]
    out = {}
    for cls in ("ELF32", "ELF64"):
        extra = {en: ("param", "endianness"), osabi: ("param", "osabi"), abiv: ("param", "abiversion")}
        p = Parser(tokenize(body2))
        blk = p.parse_block()
        se = SymExec(cls, local, class_names=(cl,), extra_env=extra)
        # `class` itself used as a struct field value: evaluates to ("class", cls)
        try:
            res = se.run_block(blk)
        except Ret as r:
            res = r.val
        if res[0] != "okval" or res[1][0] != "struct" or res[1][1] != "FileHeader":
            raise TranslateError("parse_tail does not end in Ok(FileHeader{…})")
        fields = dict(res[1][2])
        want_pass = {"class": ("class", cls), "endianness": ("param", "endianness"),
                     "osabi": ("param", "osabi"), "abiversion": ("param", "abiversion")}
        for k, v in want_pass.items():
            if fields.get(k) != v:
                raise TranslateError("parse_tail: field %s is not passed through from ident" % k)
        names = CANON["FileHeaderTail"]
        missing = [f for f in names if f not in fields]
        extra_f = [f for f in fields if f not in names and f not in want_pass]
        if missing or extra_f:
            raise TranslateError("FileHeader fields differ: missing %s extra %s" % (missing, extra_f))
        out[cls] = {"reads": se.reads, "guard": se.guard, "fields": [fields[f] for f in names]}
    sizes = {"ELF32": local["ELF32_EHDR_TAILSIZE"][1], "ELF64": local["ELF64_EHDR_TAILSIZE"][1]}
    return out, sizes


# ------------------------------------------------------------------------------------------
# repr(C) structs
# ------------------------------------------------------------------------------------------

NOT_REPR_C = []   # (name, fields, file) of C-layout structs declared without #[repr(C)]


def extract_cstructs(repo, consts):
    """every `pub struct Elf32_*/Elf64_*`; field types are resolved through `pub type A = B;` aliases.
    Structs that carry #[repr(C)] go to CStructs.lean; the others are recorded in NOT_REPR_C (their layout is
    unspecified) and still get a compiled offset table in the harness, so that the violation comes with the
    offsets the compiler actually chose."""
    structs = []
    del NOT_REPR_C[:]
    # `type A = B;` of any visibility, anywhere in the crate (aliases may live in a module of their own)
    aliases = {}
    srcdir = os.path.join(repo, "src")
    for f in sorted(os.listdir(srcdir)):
        if f.endswith(".rs"):
            aliases.update(dict(re.findall(r"(?:pub(?:\([^)]*\))?\s+)?type\s+(\w+)\s*=\s*([^;<>]+);", read_src(repo, f))))
    for fname in CSTRUCT_FILES:
        src = read_src(repo, fname)
        def resolve(ty):
            ty = ty.strip()
            for _ in range(8):
                if ty in aliases:
                    ty = aliases[ty].strip()
                else:
                    break
            return ty
        for m in re.finditer(r"((?:#\[[^\]]*\]\s*)*)pub\s+struct\s+(\w+)\s*\{", src):
            attrs, name = m.group(1), m.group(2)
            is_c = re.search(r"#\[repr\(C\)\]", attrs) is not None
            if not is_c and not re.fullmatch(r"Elf(32|64)_\w+", name):
                continue
            end = find_matching(src, m.end() - 1)
            body = src[m.end():end]
            fields = []
            for fm in re.finditer(r"pub\s+(\w+)\s*:\s*([^,]+),", body):
                fields.append((fm.group(1), resolve(fm.group(2))))
            (structs if is_c else NOT_REPR_C).append((name, fields, fname))
    return structs


def ctype_size_align(ty, consts):
    ty = ty.strip()
    if ty in INT_TYPES:
        return INT_TYPES[ty][0], INT_TYPES[ty][0]
    m = re.fullmatch(r"\[\s*u8\s*;\s*(?:abi::)?(\w+)\s*\]", ty)
    if m:
        n = m.group(1)
        cnt = int(n) if n.isdigit() else consts[n][1]
        return cnt, 1
    raise TranslateError("unknown C field type %s" % ty)


# ------------------------------------------------------------------------------------------
# to_str
# ------------------------------------------------------------------------------------------

def extract_to_str(repo, consts):
    src = read_src(repo, "to_str.rs")
    funcs = []
    for m in re.finditer(r"((?:#\[cfg\([^\]]*\)\]\s*)*)pub\s+fn\s+(\w+)\s*\(\s*(\w+)\s*:\s*(\w+)\s*\)\s*->\s*([^{]+)\{", src):
        cfg, name, arg, argty, ret = m.group(1), m.group(2), m.group(3), m.group(4), m.group(5).strip()
        end = find_matching(src, m.end() - 1)
        body = src[m.end() - 1:end + 1]
        if ret.startswith("Option"):
            p = Parser(tokenize(body))
            blk = p.parse_block()
            tail = blk[2]
            if blk[1] or tail is None or tail[0] != "match":
                raise TranslateError("%s: body is not a single match" % name)
            arms = []
            default_none = False
            for pats, b in tail[2]:
                for pat in pats:
                    if pat[0] == "wild":
                        if not (b[0] == "path" and b[1] == ["None"]):
                            raise TranslateError("%s: default arm is not None" % name)
                        default_none = True
                        continue
                    while b[0] == "block" and not b[1] and b[2] is not None:
                        b = b[2]
                    if not (b[0] == "call" and b[1][1] == ["Some"] and b[2][0][0] == "str"):
                        raise TranslateError("%s: arm does not return Some(\"…\")" % name)
                    if pat[0] == "path":
                        cname = pat[1][-1]
                        if cname not in consts:
                            raise TranslateError("%s: unknown constant %s" % (name, cname))
                        arms.append((cname, consts[cname][1], b[2][0][1]))
                    elif pat[0] == "num":
                        arms.append((None, pat[1], b[2][0][1]))
            if not default_none:
                raise TranslateError("%s: no `_ => None` arm" % name)
            funcs.append({"name": name, "kind": "to_str", "argty": argty, "arms": arms,
                          "cfg": cfg.strip()})
        else:
            # *_to_string: match X_to_str(v) { Some(s) => s.to_string(), None => format!("name({v:#x})") }
            fm = re.search(r"match\s+(\w+)\s*\(\s*" + arg + r"\s*\)", body)
            fmt = re.search(r"None\s*=>\s*format!\(\s*\"([^\"]*)\"", body)
            if fm and fmt:
                funcs.append({"name": name, "kind": "to_string", "argty": argty,
                              "delegate": fm.group(1), "fallback": fmt.group(1), "arg": arg,
                              "cfg": cfg.strip()})
            else:
                funcs.append({"name": name, "kind": "other", "argty": argty, "cfg": cfg.strip()})
    return funcs


# ------------------------------------------------------------------------------------------
# features / cfg gates
# ------------------------------------------------------------------------------------------

FEATS = ["alloc", "std", "to_str"]


def parse_cfg_pred(text):
    """cfg predicate -> nested tuple: ('feat', i) | ('not', p) | ('all', [..]) | ('any', [..]) | ('other', text)"""
    toks = tokenize(text)
    pos = [0]

    def peek():
        return toks[pos[0]] if pos[0] < len(toks) else ("eof", "")

    def eat(v=None):
        t = peek()
        if v is not None and t[1] != v:
            raise TranslateError("cfg predicate: expected %r in %r" % (v, text))
        pos[0] += 1
        return t

    def pred():
        k, v = eat()
        if v == "feature":
            eat("=")
            name = eval(eat()[1])
            if name not in FEATS:
                raise TranslateError("unknown feature %r in cfg" % name)
            return ("feat", FEATS.index(name))
        if v in ("not", "all", "any"):
            eat("(")
            args = []
            while peek()[1] != ")":
                args.append(pred())
                if peek()[1] == ",":
                    eat(",")
            eat(")")
            if v == "not":
                if len(args) != 1:
                    raise TranslateError("not() with %d args" % len(args))
                return ("not", args[0])
            return (v, args)
        if v == "test":
            return ("test",)
        # target_endian = "little", etc.: opaque
        rest = v
        if peek()[1] == "=":
            eat("=")
            rest += "=" + eat()[1]
        return ("other", rest)

    p = pred()
    return p


def item_extent(src, start):
    """extent [start, end) of the item that begins at `start` (after its attributes)"""
    depth = 0
    i = start
    n = len(src)
    head = src[start:start + 80].lstrip()
    block_item = re.match(r"(pub(\([a-z]+\))?\s+)?(unsafe\s+|const\s+|async\s+)*(fn|impl|struct|enum|mod|trait|union)\b", head) is not None
    while i < n:
        c = src[i]
        if c in "({[":
            depth += 1
        elif c in ")}]":
            if depth == 0:
                return i
            depth -= 1
            if depth == 0 and c == "}":
                return i + 1
        elif c == ";" and depth == 0:
            return i + 1
        elif c == "," and depth == 0 and not block_item:
            return i + 1
        i += 1
    return n


HEAP_NAMES = re.compile(r"\b(String|Vec|HashMap|Box)\b|\bformat!|\bvec!|\.to_string\(\)")


def extract_features(repo):
    cargo = open(os.path.join(repo, "Cargo.toml")).read()
    m = re.search(r"^\[features\]\s*$(.*?)(?=^\[|\Z)", cargo, re.M | re.S)
    feats = {}
    if m:
        for line in m.group(1).splitlines():
            line = line.split("#")[0].strip()
            fm = re.fullmatch(r"([\w-]+)\s*=\s*\[(.*)\]", line)
            if fm:
                feats[fm.group(1)] = [x.strip().strip('"') for x in fm.group(2).split(",") if x.strip()]
    for f in FEATS:
        if f not in feats:
            raise TranslateError("feature %s missing from Cargo.toml" % f)
    extra = [f for f in feats if f not in FEATS and f != "default"]
    if extra:
        raise TranslateError("new cargo feature(s) %s: extend the cfg model" % extra)
    dm = re.search(r"^\[dependencies\]\s*$(.*?)(?=^\[|\Z)", cargo, re.M | re.S)
    deps = [l.split("=")[0].strip() for l in (dm.group(1).splitlines() if dm else []) if l.split("#")[0].strip()]
    lib = read_src(repo, "lib.rs")
    # crate attributes
    crate_no_std = None
    for cm in re.finditer(r"#!\[cfg_attr\((.*)\)\]", lib):
        inner = cm.group(1)
        k = inner.rfind(",")
        if inner[k + 1:].strip() == "no_std":
            crate_no_std = parse_cfg_pred(inner[:k])
    unconditional_no_std = bool(re.search(r"#!\[no_std\]", lib))
    # extern crate alloc / std
    externs = []
    for em in re.finditer(r"((?:#\[cfg\((?:[^\[\]])*\)\]\s*)*)extern\s+crate\s+(\w+)\s*;", lib):
        gates = [parse_cfg_pred(g) for g in re.findall(r"#\[cfg\(((?:[^\[\]])*)\)\]", em.group(1))]
        externs.append((em.group(2), gates))
    # module gates
    mod_gates = {}
    for mm in re.finditer(r"((?:#\[cfg\((?:[^\[\]])*\)\]\s*)*)(?:pub\s+)?mod\s+(\w+)\s*;", lib):
        mod_gates[mm.group(2) + ".rs"] = [parse_cfg_pred(g) for g in re.findall(r"#\[cfg\(((?:[^\[\]])*)\)\]", mm.group(1))]
    usages = []
    srcdir = os.path.join(repo, "src")
    for fname in sorted(os.listdir(srcdir)):
        if not fname.endswith(".rs"):
            continue
        src = read_src(repo, fname)
        # attributed regions
        regions = []
        for am in re.finditer(r"(?:#\[cfg\((?:[^\[\]])*\)\]\s*)+", src):
            preds = [parse_cfg_pred(g) for g in re.findall(r"#\[cfg\(((?:[^\[\]])*)\)\]", am.group(0))]
            # skip other attributes / doc between cfg and the item
            st = am.end()
            while True:
                m2 = re.match(r"\s*#\[[^\]]*\]\s*", src[st:])
                if not m2:
                    break
                st += m2.end()
            regions.append((am.start(), item_extent(src, st), preds))
        base = mod_gates.get(fname, [])
        found = []
        for um in re.finditer(r"\b(std|alloc)::", src):
            found.append((um.start(), um.group(1)))
        for hm in HEAP_NAMES.finditer(src):
            found.append((hm.start(), "heap"))
        for pos_, kind in found:
            gates = list(base)
            for a, e, preds in regions:
                if a <= pos_ < e:
                    gates.extend(preds)
            ls = src.rfind("\n", 0, pos_) + 1
            le = src.find("\n", pos_)
            usages.append({"file": fname, "kind": kind, "gates": gates, "line": src[ls:le].strip()[:90]})
    return {"features": feats, "dependencies": deps, "crate_no_std": crate_no_std,
            "unconditional_no_std": unconditional_no_std, "externs": externs, "usages": usages,
            "mod_gates": mod_gates}


def lean_pred(p):
    k = p[0]
    if k == "feat":
        return "(.feat %d)" % p[1]
    if k == "not":
        return "(.not %s)" % lean_pred(p[1])
    if k in ("all", "any"):
        return "(.%s [%s])" % (k, ", ".join(lean_pred(x) for x in p[1]))
    if k == "test":
        return "(.test)"
    return "(.other)"


def emit_features(ft):
    L = [HEADER, "import ElfVerif.Model.Cfg\nnamespace Elf.Gen\n"]
    L.append("/-- [features] of Cargo.toml: feature index (0 alloc, 1 std, 2 to_str) -> implied features -/")
    L.append("def featureImplies : List (Nat × List Nat) := [%s]" % ", ".join(
        "(%d, [%s])" % (FEATS.index(f), ", ".join(str(FEATS.index(x)) for x in ft["features"][f] if x in FEATS)) for f in FEATS))
    L.append("def defaultFeatures : List Nat := [%s]" % ", ".join(str(FEATS.index(x)) for x in ft["features"].get("default", []) if x in FEATS))
    L.append("def externalDependencies : Nat := %d" % len(ft["dependencies"]))
    L.append("/-- `#![cfg_attr(P, no_std)]`: the crate is no_std iff P (none = never, unless unconditional) -/")
    L.append("def crateNoStd : Option Cfg.Pred := %s" % ("some " + lean_pred(ft["crate_no_std"]) if ft["crate_no_std"] else "none"))
    L.append("def unconditionalNoStd : Bool := %s" % ("true" if ft["unconditional_no_std"] else "false"))
    L.append("/-- `extern crate X;` items with their gates: (0 alloc | 1 std, gates) -/")
    L.append("def externCrates : List (Nat × List Cfg.Pred) := [%s]" % ", ".join(
        "(%d, [%s])" % (0 if n == "alloc" else 1, ", ".join(lean_pred(g) for g in gs)) for n, gs in ft["externs"] if n in ("alloc", "std")))
    L.append("/-- every use of a `std::` path (1), an `alloc::` path (0) or a heap-allocating name (2) in non-test code,")
    L.append("    with all cfg gates of the items enclosing it -/")
    L.append("def usages : List (Nat × List Cfg.Pred) := [")
    rows = []
    for u in ft["usages"]:
        kind = {"alloc": 0, "std": 1, "heap": 2}[u["kind"]]
        rows.append("  (%d, [%s]) /- %s: %s -/" % (kind, ", ".join(lean_pred(g) for g in u["gates"]), u["file"],
                                                    u["line"].replace("-/", "- /").replace("/-", "/ -")))
    L.append(",\n".join(rows))
    L.append("]\n\nend Elf.Gen\n")
    return "\n".join(L)


# ------------------------------------------------------------------------------------------
# emit
# ------------------------------------------------------------------------------------------

def name_key(name):
    n = 0
    for ch in name.encode():
        n = n * 256 + ch
    return n


def write_if_changed(path, content):
    try:
        with open(path) as f:
            if f.read() == content:
                return False
    except FileNotFoundError:
        pass
    tmp = path + ".tmp%d" % os.getpid()
    with open(tmp, "w") as f:
        f.write(content)
    os.replace(tmp, path)
    return True


HEADER = "-- GENERATED by /verif/translator/translate.py from /repo/src — do not edit.\n"


def lean_str(s):
    return '"' + s.replace("\\", "\\\\").replace('"', '\\"').replace("\n", "\\n").replace("\0", "\\x00") + '"'


def emit_consts(consts_list):
    lines = [HEADER, "namespace Elf.Abi\n"]
    rows = []
    for name, ty, v, pub in consts_list:
        if ty in INT_TYPES:
            if INT_TYPES[ty][1]:
                lines.append("def %s : Int := %s" % (name, v if v >= 0 else "(%d)" % v))
            else:
                lines.append("def %s : Nat := %d" % (name, v))
            rows.append((name_key(name), name, ty, v))
        elif isinstance(v, list):
            lines.append("def %s : List Nat := [%s]" % (name, ", ".join(map(str, v))))
        elif isinstance(v, str):
            lines.append("def %s : String := %s" % (name, lean_str(v)))
    lines.append("\nend Elf.Abi\n")
    lines.append("namespace Elf.Gen\n")
    lines.append("/-- (name as base-256 Nat, bytes of the type, signed, value) sorted by name key. -/")
    rows.sort()
    chunks = [rows[i:i + 64] for i in range(0, len(rows), 64)]
    for ci, ch in enumerate(chunks):
        lines.append("def abiChunk%d : List (Nat × Nat × Bool × Int) := [" % ci)
        lines.append(",\n".join("  (%d, %d, %s, %d) /- %s -/" % (k, INT_TYPES[ty][0],
                                                                  "true" if INT_TYPES[ty][1] else "false", v, n)
                                for k, n, ty, v in ch))
        lines.append("]")
    lines.append("def abiTable : List (Nat × Nat × Bool × Int) :=\n  " +
                 " ++ ".join("abiChunk%d" % i for i in range(len(chunks))))
    lines.append("\nend Elf.Gen\n")
    return "\n".join(lines)


def emit_prog(p):
    g = "none"
    if p["guard"] is not None:
        g = "some ⟨%d, %d, %d⟩" % p["guard"]
    return "{ reads := [%s], guard := %s, fields := [%s] }" % (
        ", ".join(lean_ty(t) for t in p["reads"]), g, ", ".join(lean_expr(f) for f in p["fields"]))


def emit_progs(progs, sizes, tail, tail_sizes):
    lines = [HEADER, "import ElfVerif.Model.Prog\nnamespace Elf.Gen\n"]
    allp = dict(progs)
    allp["FileHeaderTail"] = tail
    alls = dict(sizes)
    alls["FileHeaderTail"] = tail_sizes
    for t in sorted(allp):
        lines.append("def prog_%s : Class → Prog" % t)
        for cls in ("ELF32", "ELF64"):
            lines.append("  | .%s => %s" % (cls, emit_prog(allp[t][cls])))
        lines.append("def size_%s : Class → Nat\n  | .ELF32 => %d\n  | .ELF64 => %d\n"
                     % (t, alls[t]["ELF32"], alls[t]["ELF64"]))
    lines.append("/-- every generated program with its declared size, for table-wide checks -/")
    lines.append("def allProgs : List (Nat × Class × Prog × Nat) := [")
    rows = []
    for t in sorted(allp):
        for cls in ("ELF32", "ELF64"):
            rows.append("  (%d, .%s, prog_%s .%s, size_%s .%s) /- %s -/" % (name_key(t), cls, t, cls, t, cls, t))
    lines.append(",\n".join(rows))
    lines.append("]\n\nend Elf.Gen\n")
    return "\n".join(lines)


def emit_cstructs(structs, consts):
    lines = [HEADER, "namespace Elf.Gen\n",
             "/-- (struct name key, [(field name key, size, align)]) in declaration order -/",
             "def cStructs : List (Nat × List (Nat × Nat × Nat)) := ["]
    rows = []
    for name, fields, _ in structs:
        fs = []
        for fn, ty in fields:
            sz, al = ctype_size_align(ty, consts)
            fs.append("(%d, %d, %d) /- %s: %s -/" % (name_key(fn), sz, al, fn, ty))
        rows.append("  (%d /- %s -/, [\n    %s])" % (name_key(name), name, ",\n    ".join(fs)))
    lines.append(",\n".join(rows))
    lines.append("]\n\nend Elf.Gen\n")
    return "\n".join(lines)


SYMBOLIC_FUNCS = ["e_osabi_to_str", "e_type_to_str", "e_machine_to_str", "sh_type_to_str",
                  "p_type_to_str", "st_symtype_to_str", "st_bind_to_str", "st_vis_to_str",
                  "ch_type_to_str", "d_tag_to_str"]


def emit_to_str(funcs):
    lines = [HEADER, "namespace Elf.Gen\n",
             "/-- arms of the symbolic-name helpers: (function key, value, returned string as key,\n"
             "    matched constant's name key) -/"]
    rows = []
    for f in funcs:
        if f["kind"] != "to_str":
            continue
        sym = f["name"] in SYMBOLIC_FUNCS
        for cname, v, s in f["arms"]:
            rows.append((f["name"], sym, v, s, cname))
    chunks = [rows[i:i + 64] for i in range(0, len(rows), 64)]
    for ci, ch in enumerate(chunks):
        lines.append("def toStrChunk%d : List (Nat × Bool × Int × Nat × Nat) := [" % ci)
        lines.append(",\n".join("  (%d, %s, %d, %d, %d) /- %s: %s => %s -/" % (
            name_key(fn), "true" if sym else "false", v, name_key(s), name_key(cn or ""), fn, cn, lean_str(s))
            for fn, sym, v, s, cn in ch))
        lines.append("]")
    lines.append("def toStrArms : List (Nat × Bool × Int × Nat × Nat) :=\n  " +
                 " ++ ".join("toStrChunk%d" % i for i in range(len(chunks))))
    lines.append("\n/-- *_to_string fallbacks: (function key, delegate key, format string mentions `{arg:#x}`) -/")
    lines.append("def toStringFallbacks : List (Nat × Nat × Bool) := [")
    fr = []
    for f in funcs:
        if f["kind"] == "to_string":
            ok = ("{%s:#x}" % f["arg"]) in f["fallback"] or ("{%s}" % f["arg"]) in f["fallback"]
            fr.append("  (%d, %d, %s) /- %s -> %s, %s -/" % (name_key(f["name"]), name_key(f["delegate"]),
                                                             "true" if ok else "false", f["name"],
                                                             f["delegate"], lean_str(f["fallback"])))
    lines.append(",\n".join(fr))
    lines.append("]\n\nend Elf.Gen\n")
    return "\n".join(lines)


def emit_rust(consts_list, structs, to_str, sizes):
    """Rust source compiled into the harness: lets it print, from the *compiled* crate, everything
    the translator extracted from the *source* (values, layouts, to_str outputs)."""
    L = ["// GENERATED by /verif/translator/translate.py — do not edit.",
         "#![allow(dead_code, clippy::all)]",
         "pub const ABI_CONSTS: &[(&str, i128)] = &["]
    seen = set()
    for name, ty, v, pub in consts_list:
        if ty in INT_TYPES and pub:
            L.append('    ("%s", elf::abi::%s as i128),' % (name, name))
            seen.add(name)
    # exported constants of the pinned tree that this run did not find as a `pub const NAME: T = …;` item but whose name
    # still occurs in abi.rs (defined through a macro, say): printed from the compiled crate all the same, and compared
    # with the reference by ./check
    for name in EXTRA_CONST_NAMES:
        if name not in seen:
            L.append('    ("%s", elf::abi::%s as i128),' % (name, name))
    L.append("];")
    L.append("pub fn cstructs() -> Vec<(&'static str, usize, Vec<(&'static str, usize)>)> {")
    L.append("    vec![")
    for name, fields, fname in list(structs) + list(NOT_REPR_C):
        mod = fname[:-3]
        fs = ", ".join('("%s", core::mem::offset_of!(elf::%s::%s, %s))' % (fn, mod, name, fn) for fn, _ in fields)
        L.append('        ("%s", core::mem::size_of::<elf::%s::%s>(), vec![%s]),' % (name, mod, name, fs))
    L.append("    ]")
    L.append("}")
    L.append("/// C-layout structs declared without #[repr(C)]: their field offsets are unspecified")
    L.append("pub const NOT_REPR_C: &[&str] = &[%s];" % ", ".join('"%s"' % n for n, _, _ in NOT_REPR_C))
    L.append("pub fn call_to_str(name: &str, v: i128) -> Option<Option<&'static str>> {")
    L.append("    match name {")
    rng = {"u8": (0, 255), "u16": (0, 65535), "u32": (0, 2**32 - 1), "u64": (0, 2**64 - 1),
           "i64": (-2**63, 2**63 - 1), "i32": (-2**31, 2**31 - 1)}
    for f in to_str:
        if f["kind"] != "to_str":
            continue
        lo, hi = rng[f["argty"]]
        L.append('        "%s" => if v >= %d && v <= %d { Some(elf::to_str::%s(v as %s)) } else { None },'
                 % (f["name"], lo, hi, f["name"], f["argty"]))
    L.append("        _ => None,")
    L.append("    }")
    L.append("}")
    L.append("pub fn call_to_string(name: &str, v: i128) -> Option<String> {")
    L.append("    match name {")
    def stringy(f):
        # the *_to_string functions: the delegating ones and those with a body of their own (p_flags_to_string)
        return f["kind"] == "to_string" or (f["kind"] == "other" and f["name"].endswith("_to_string") and f["argty"] in rng)
    for f in to_str:
        if not stringy(f):
            continue
        lo, hi = rng[f["argty"]]
        L.append('        "%s" => if v >= %d && v <= %d { Some(elf::to_str::%s(v as %s)) } else { None },'
                 % (f["name"], lo, hi, f["name"], f["argty"]))
    L.append("        _ => None,")
    L.append("    }")
    L.append("}")
    L.append("pub const TO_STR_FUNCS: &[(&str, &str)] = &[")
    for f in to_str:
        if f["kind"] == "to_str" or stringy(f):
            L.append('    ("%s", "%s"),' % (f["name"], f["argty"]))
    L.append("];")
    return "\n".join(L) + "\n"


def crate_aliases(repo):
    aliases = {}
    for f in sorted(os.listdir(os.path.join(repo, "src"))):
        if f.endswith(".rs"):
            for a, b in re.findall(r"(?:pub(?:\([^)]*\))?\s+)?type\s+(\w+)\s*=\s*([^;<>]+);", read_src(repo, f)):
                aliases[a] = b.strip()
    # resolve chains
    for _ in range(4):
        aliases = {a: aliases.get(b, b) for a, b in aliases.items()}
    return aliases


def main():
    ap = argparse.ArgumentParser()
    ap.add_argument("--repo", default="/repo")
    ap.add_argument("--out", default="/verif/lean/ElfVerif/Generated")
    ap.add_argument("--json", default=None)
    ap.add_argument("--rust", default=None, help="write the harness's generated.rs (compiled-crate cross-check)")
    ap.add_argument("--write-baseline", action="store_true",
                    help="record this tree's translation as the per-item fallback (run on the pinned tree only)")
    args = ap.parse_args()
    os.makedirs(args.out, exist_ok=True)
    if not args.write_baseline:
        load_baseline()
    try:
        abi_src = read_src(args.repo, "abi.rs")
        consts_list, consts = extract_consts(abi_src)
        progs, sizes = extract_parse_progs(args.repo, consts)
        try:
            tail, tail_sizes = extract_parse_tail(args.repo, consts)
        except TranslateError as e:
            tail, tail_sizes = fallback("tail", None, e)
        try:
            structs = extract_cstructs(args.repo, consts)
        except TranslateError as e:
            structs = fallback("cstructs", None, e)
        try:
            to_str = extract_to_str(args.repo, consts)
        except TranslateError as e:
            to_str = fallback("to_str", None, e)
        try:
            feats = extract_features(args.repo)
        except TranslateError as e:
            feats = fallback("features", None, e)
        if BASELINE is not None and "consts" in BASELINE:
            have = set(n for n, _, _, _ in consts_list)
            words = set(re.findall(r"[A-Za-z_][A-Za-z0-9_]*", abi_src))
            for n, (ty, _v) in sorted(BASELINE["consts"].items()):
                if n not in have and ty in INT_TYPES and n in words:
                    EXTRA_CONST_NAMES.append(n)
                    print("TRANSLATE-NOTE: exported constant %s is not a `pub const` item any more; its compiled value is compared with the reference" % n)
        import accessors as accmod
        if os.environ.get("VERIF_ACCESSORS_PINNED") and BASELINE is not None and "accessors" in BASELINE:
            # ./check found that the freshly generated Accessors.lean does not elaborate: the model is built over the pinned
            # tree's translations (tied by the correspondence); the properties that own the accessor theorems report it
            accs = [BASELINE["accessors"][k] for k in BASELINE["accessors"]]
            FALLBACKS.append({"component": "accessors (all)", "reason": "the generated Accessors.lean did not elaborate"})
        else:
          accs = accmod.translate_accessors(lambda f: read_src(args.repo, f), consts, crate_aliases(args.repo),
                                            None if args.write_baseline else fallback,
                                            None if (args.write_baseline or BASELINE is None) else BASELINE.get("accessors"))
        try:
            native = accmod.translate_native(lambda f: read_src(args.repo, f))
        except TranslateError as e:
            native = fallback("native", None, e)
    except TranslateError as e:
        print("TRANSLATE-ERROR: %s" % e)
        sys.exit(2)
    if args.write_baseline:
        path = os.path.join(os.path.dirname(os.path.abspath(__file__)), "baseline.txt")
        open(path, "w").write(repr({"progs": progs, "sizes": sizes, "tail": (tail, tail_sizes),
                                    "cstructs": structs, "to_str": to_str,
                                    "consts": {n: (ty, v) for n, ty, v, _ in consts_list},
                                    "accessors": {"%s.%s" % (a["type"], a["fn"]): a for a in accs},
                                    "native": native, "features": feats}))
        print("baseline written to", path)
    changed = []
    for fname, content in [
        ("AbiConsts.lean", emit_consts(consts_list)),
        ("ParseProgs.lean", emit_progs(progs, sizes, tail, tail_sizes)),
        ("CStructs.lean", emit_cstructs(structs, consts)),
        ("ToStr.lean", emit_to_str(to_str)),
        ("Features.lean", emit_features(feats)),
        ("Accessors.lean", accmod.emit_accessors(accs, native)),
    ]:
        if write_if_changed(os.path.join(args.out, fname), content):
            changed.append(fname)
    dump = {
        "consts": [{"name": n, "ty": ty, "value": v, "pub": pub} for n, ty, v, pub in consts_list],
        "progs": {t: {c: {"reads": p["reads"], "guard": p["guard"],
                          "fields": [json_expr(f) for f in p["fields"]]}
                      for c, p in pc.items()} for t, pc in dict(progs, FileHeaderTail=tail).items()},
        "sizes": dict(sizes, FileHeaderTail=tail_sizes),
        "canon": CANON,
        "cstructs": [{"name": n, "fields": [{"name": fn, "ty": ty,
                                              "size": ctype_size_align(ty, consts)[0],
                                              "align": ctype_size_align(ty, consts)[1]}
                                             for fn, ty in fs], "file": fl} for n, fs, fl in structs],
        "to_str": to_str,
        "features": {"features": feats["features"], "dependencies": feats["dependencies"],
                     "usages": [{"file": u["file"], "kind": u["kind"], "line": u["line"], "gates": repr(u["gates"])} for u in feats["usages"]]},
        "accessors": [{"type": a["type"], "fn": a["fn"], "params": [list(p) for p in a["params"]], "rty": a["rty"], "body": a["body"]} for a in accs],
        "changed": changed,
        "fallbacks": FALLBACKS,
        "skipped_consts": SKIPPED_CONSTS,
    }
    if args.json:
        write_if_changed(args.json, json.dumps(dump, indent=1, sort_keys=True))
    if args.rust:
        write_if_changed(args.rust, emit_rust(consts_list, structs, to_str, sizes))
    print("translated: %d consts, %d parse programs, %d C structs, %d to_str functions, %d accessors; rewrote %s"
          % (len(consts_list), 2 * (len(progs) + 1), len(structs), len(to_str), len(accs), changed or "nothing"))
    for sc in accmod.SIGNATURE_CHANGES:
        print("TRANSLATE-SIGNATURE: %s now reads %s (pinned tree: %s); the model keeps the pinned translation" % (sc["item"], sc["now"], sc["pinned"]))
    for sk in SKIPPED_CONSTS:
        print("TRANSLATE-SKIPPED-CONST: %s%s (%s)" % ("pub " if sk["pub"] else "", sk["name"], sk["reason"]))
    for fb in FALLBACKS:
        print("TRANSLATE-FALLBACK: %s not translated (%s); its model is the pinned tree's translation, tied by the correspondence"
              % (fb["component"], fb["reason"]))


if __name__ == "__main__":
    main()
