#!/usr/bin/env python3
"""Fingerprints of the crate's source, for change-directed effort (DESIGN §4.2, §11.7).

For every `src/*.rs` file: the sha1 of its comment-, whitespace- and test-module-free token stream, and the
same per `fn` item (keyed by `name@k`, k = ordinal among same-named functions in the file).  A fingerprint that
differs from the one recorded for the pinned tree (`translator/fingerprints.json`) is NOT a failure — the
tie between model and code is behavioural — it only redirects effort: `check` gives the request streams that
exercise a changed file more cases and extra seeds, because a change is where a new defect can be.

usage: fingerprint.py --repo /repo [--write-baseline] [--json out.json]
"""
import hashlib
import json
import os
import re
import sys

HERE = os.path.dirname(os.path.abspath(__file__))
sys.path.insert(0, HERE)
from rustmini import tokenize, strip_test_modules  # noqa: E402

BASELINE = os.path.join(HERE, "fingerprints.json")

# which request streams exercise the code of which source file (used by ./check to scale case counts)
FILE_STREAMS = {
    "endian.rs": ["int", "parse", "table", "ehdr", "ident", "file"],
    "parse.rs": ["int", "parse", "table", "file", "stream", "streamcache", "notes", "symver", "sysv", "gnu"],
    "string_table.rs": ["strtab", "utf8", "file", "sweep", "gnu", "sysv", "symver", "stream"],
    "note.rs": ["notes", "file", "sweep", "stream", "streamcache"],
    "hash.rs": ["sysv", "gnu", "file", "sweep"],
    "gnu_symver.rs": ["symver", "verorder", "file", "stream"],
    "elf_bytes.rs": ["file", "sweep", "prefix", "filehdr", "bigfile", "stream", "verorder"],
    "elf_stream.rs": ["stream", "streamhdr", "streamcache", "sprefix", "streamfault", "bigfault", "identstream",
                      "bigstream", "verorder", "filehdr"],
    "file.rs": ["ident", "ehdr", "filehdr", "file", "identstream", "stream", "streamhdr", "prefix", "sprefix"],
    "section.rs": ["parse", "acc", "table", "file", "sweep", "stream", "prefix", "streamcache"],
    "segment.rs": ["parse", "acc", "table", "file", "sweep", "stream", "prefix"],
    "symbol.rs": ["parse", "acc", "table", "file", "sysv", "gnu", "stream", "streamcache"],
    "relocation.rs": ["parse", "acc", "table", "file", "stream", "streamcache"],
    "dynamic.rs": ["parse", "acc", "table", "file", "stream", "prefix"],
    "compression.rs": ["parse", "acc", "file", "sweep", "stream"],
    "lib.rs": [],
    "abi.rs": [],
    "to_str.rs": [],
}


def norm_tokens(src):
    src = strip_test_modules(src)
    try:
        return " ".join(t for _, t in tokenize(src))
    except Exception:  # unknown lexeme: fall back to whitespace normalisation
        src = re.sub(r"//[^\n]*", "", src)
        return " ".join(src.split())


def fn_items(src):
    """(name, text) of every `fn` item with a body, by brace matching on the comment-free token text."""
    src = strip_test_modules(src)
    try:
        toks = [t for _, t in tokenize(src)]
    except Exception:
        return []
    out = []
    i = 0
    n = len(toks)
    while i < n:
        if toks[i] == "fn" and i + 1 < n and re.fullmatch(r"[A-Za-z_][A-Za-z0-9_]*", toks[i + 1]):
            name = toks[i + 1]
            j = i + 2
            # find the body's opening brace (a `;` first means a declaration without body)
            depth_par = 0
            while j < n and not (toks[j] == "{" and depth_par == 0) and not (toks[j] == ";" and depth_par == 0):
                if toks[j] in "([":
                    depth_par += 1
                elif toks[j] in ")]":
                    depth_par -= 1
                j += 1
            if j < n and toks[j] == "{":
                d = 0
                k = j
                while k < n:
                    if toks[k] == "{":
                        d += 1
                    elif toks[k] == "}":
                        d -= 1
                        if d == 0:
                            break
                    k += 1
                out.append((name, " ".join(toks[i:k + 1])))
                i = j + 1      # nested fns are found too
                continue
        i += 1
    return out


def fingerprint(repo):
    res = {}
    srcdir = os.path.join(repo, "src")
    for f in sorted(os.listdir(srcdir)):
        if not f.endswith(".rs"):
            continue
        src = open(os.path.join(srcdir, f), encoding="utf-8", errors="replace").read()
        ent = {"file": hashlib.sha1(norm_tokens(src).encode()).hexdigest(), "fns": {}}
        seen = {}
        for name, text in fn_items(src):
            k = seen.get(name, 0)
            seen[name] = k + 1
            ent["fns"]["%s@%d" % (name, k)] = hashlib.sha1(text.encode()).hexdigest()[:16]
        res[f] = ent
    return res


def compare(cur, base):
    """-> (changed files, changed/added/removed function labels)"""
    files, fns = [], []
    for f in sorted(set(cur) | set(base)):
        c, b = cur.get(f), base.get(f)
        if c is None or b is None:
            files.append(f)
            fns.append(f + ": file " + ("added" if b is None else "removed"))
            continue
        if c["file"] != b["file"]:
            files.append(f)
            for k in sorted(set(c["fns"]) | set(b["fns"])):
                if c["fns"].get(k) != b["fns"].get(k):
                    fns.append("%s:%s" % (f, k.split("@")[0]))
            if not any(x.startswith(f + ":") for x in fns):
                fns.append(f + ": (outside any fn)")
    return files, fns


def main():
    args = sys.argv[1:]
    repo = "/repo"
    out = None
    write = False
    i = 0
    while i < len(args):
        if args[i] == "--repo":
            repo = args[i + 1]; i += 2
        elif args[i] == "--json":
            out = args[i + 1]; i += 2
        elif args[i] == "--write-baseline":
            write = True; i += 1
        else:
            i += 1
    cur = fingerprint(repo)
    if write:
        with open(BASELINE, "w") as f:
            json.dump(cur, f, indent=0, sort_keys=True)
        print("baseline written: %d files, %d functions" % (len(cur), sum(len(v["fns"]) for v in cur.values())))
        return
    base = json.load(open(BASELINE)) if os.path.exists(BASELINE) else {}
    files, fns = compare(cur, base)
    streams = sorted(set(s for f in files for s in FILE_STREAMS.get(f, [])))
    res = {"changed_files": files, "changed_fns": fns, "streams": streams}
    if out:
        with open(out, "w") as f:
            json.dump(res, f)
    print(json.dumps(res))


if __name__ == "__main__":
    main()
