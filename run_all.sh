#!/bin/bash
# run every registered check (quick by default) and summarise
tier=${1:-quick}
cd "$(dirname "$0")"
for c in $(python3 -c "import json;print(' '.join(x['property_id'] for x in json.load(open('MANIFEST.json'))['checks']))"); do
  ./check $c --tier $tier | tail -1
done
