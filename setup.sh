#!/bin/bash
# Build the framework from files on disk only (offline): generated Lean files, all proofs, the model
# driver, and the Rust harness against /repo's working tree.
set -e
cd "$(dirname "$0")"
export CARGO_NET_OFFLINE=true
mkdir -p build evidence
python3 translator/translate.py --repo /repo --out lean/ElfVerif/Generated --json build/translated.json --rust harness/src/generated.rs
(cd lean && lake build ElfVerif elfmodel)
(cd harness && cargo build --release --offline)
echo "setup done"
